#!/bin/sh
# Offline setup: hypothesis must be importable from /venv (it normally already is); atheris (coverage-guided
# extra of the thorough tier of C01) is unpacked from the offline wheelhouse into /verif/.deps.
set -e
HERE="$(cd "$(dirname "$0")" && pwd)"
if ! /venv/bin/python -c "import hypothesis" 2>/dev/null; then
  PIP_NO_INDEX=1 /venv/bin/pip install --no-index --find-links /opt/veriftools/wheels hypothesis
fi
if ! PYTHONPATH="$HERE/.deps" /venv/bin/python -c "import atheris" 2>/dev/null; then
  PIP_NO_INDEX=1 /venv/bin/pip install --no-index --find-links /opt/veriftools/wheels --target "$HERE/.deps" atheris >/dev/null 2>&1 || echo "setup: atheris not installable (the thorough tier of C01 will skip its coverage-guided extra)"
fi
/venv/bin/python -c "import hypothesis, attrs, cattrs, jsonschema; print('setup ok: hypothesis', hypothesis.__version__)"
