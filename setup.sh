#!/bin/sh
# Offline setup: make sure hypothesis is importable from /venv (it normally already is).
set -e
if ! /venv/bin/python -c "import hypothesis" 2>/dev/null; then
  PIP_NO_INDEX=1 /venv/bin/pip install --no-index --find-links /opt/veriftools/wheels hypothesis
fi
/venv/bin/python -c "import hypothesis, attrs, cattrs, jsonschema; print('setup ok: hypothesis', hypothesis.__version__)"
