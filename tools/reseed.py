#!/venv/bin/python
"""Regression over the stored seeded breakages: apply each seeded/<name>/patch.diff to a fresh worktree of /repo HEAD and
re-run the checks that caught it when it was stored.

usage: tools/reseed.py [name ...]     (default: every directory under seeded/)
Prints one line per seed: still-caught / NOT-CAUGHT / patch-does-not-apply (later repo fixes touch the same lines).
"""
from __future__ import annotations

import json
import os
import subprocess
import sys

HERE = os.path.dirname(os.path.dirname(os.path.abspath(__file__)))


def sh(cmd, **kw):
    return subprocess.run(cmd, capture_output=True, text=True, **kw)


def main() -> int:
    names = sys.argv[1:] or sorted(n for n in os.listdir(os.path.join(HERE, "seeded")) if os.path.isdir(os.path.join(HERE, "seeded", n)))
    bad = 0
    for name in names:
        d = os.path.join(HERE, "seeded", name)
        meta = json.load(open(os.path.join(d, "meta.json")))
        caught = sorted({k.split("@")[0] for k, v in meta.get("checks", {}).items() if v.get("verdict") == "CAUGHT"})
        if not caught:
            print(f"{name}: was not caught when stored ({meta.get('note', 'see README')})")
            continue
        wt = f"/tmp/reseed-{name}-{os.getpid()}"
        sh(["git", "-C", "/repo", "worktree", "remove", "--force", wt])
        r = sh(["git", "-C", "/repo", "worktree", "add", "--detach", wt, "HEAD"])
        try:
            r = sh(["git", "-C", wt, "apply", "--whitespace=nowarn", os.path.join(d, "patch.diff")])
            if r.returncode:
                r3 = sh(["git", "-C", wt, "apply", "--3way", "--whitespace=nowarn", os.path.join(d, "patch.diff")])
                if r3.returncode:
                    print(f"{name}: patch-does-not-apply to the current HEAD")
                    continue
            verdicts = {}
            for c in caught:
                rr = sh([os.path.join(HERE, "check"), c], cwd=HERE, env={**os.environ, "LSPVERIF_REPO": wt, "VERIF_SEED": "1"}, timeout=7200)
                verdicts[c] = {0: "missed", 1: "CAUGHT", 2: "harness-error"}.get(rr.returncode, str(rr.returncode))
            ok = any(v == "CAUGHT" for v in verdicts.values())
            bad += 0 if ok else 1
            print(f"{name}: {'still-caught' if ok else 'NOT-CAUGHT'} {verdicts}", flush=True)
        finally:
            sh(["git", "-C", "/repo", "worktree", "remove", "--force", wt])
    sh(["git", "-C", HERE, "checkout", "--", "evidence"])
    return 1 if bad else 0


if __name__ == "__main__":
    sys.exit(main())
