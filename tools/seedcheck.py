#!/venv/bin/python
"""Confirm a seeded breakage produced by a sub-agent and run the checks against it.

usage: tools/seedcheck.py <PROP> <agent worktree> [--checks C01,C02] [--tier quick|thorough] [--keep <name>]

Steps (nothing touches /repo's working tree):
  1. fresh detached worktree of /repo HEAD under /tmp, `git apply` the agent's patch.diff
  2. the pinned tests must pass there
  3. the agent's demo must exit non-zero with the patch and 0 without it
  4. run the named checks with LSPVERIF_REPO=<worktree>; report CAUGHT / missed
  5. with --keep: store patch, demo and meta.json under /verif/seeded/<name>/
"""
from __future__ import annotations

import argparse
import json
import os
import shutil
import subprocess
import sys
import time

HERE = os.path.dirname(os.path.dirname(os.path.abspath(__file__)))
PY = "/venv/bin/python"


def sh(cmd, **kw):
    return subprocess.run(cmd, capture_output=True, text=True, **kw)


def main():
    ap = argparse.ArgumentParser()
    ap.add_argument("prop")
    ap.add_argument("agent_wt")
    ap.add_argument("--checks", default=None)
    ap.add_argument("--tier", default="quick")
    ap.add_argument("--keep", default=None)
    ap.add_argument("--seeds", default="1")
    ap.add_argument("--base", default="HEAD", help="commit of /repo the patch was made against (when later fixes touch the same lines)")
    a = ap.parse_args()
    seed_dir = os.path.join(a.agent_wt, "_seed")
    patch = os.path.join(seed_dir, "patch.diff")
    demo = os.path.join(seed_dir, "demo.py")
    if not (os.path.exists(patch) and os.path.exists(demo)):
        raise SystemExit(f"missing {patch} or {demo}")
    wt = f"/tmp/seedverify-{a.prop}-{os.getpid()}"
    sh(["git", "-C", "/repo", "worktree", "remove", "--force", wt])
    r = sh(["git", "-C", "/repo", "worktree", "add", "--detach", wt, a.base])
    if r.returncode:
        raise SystemExit(r.stderr)
    meta = {"property": a.prop, "repo_head": sh(["git", "-C", "/repo", "rev-parse", "--short", a.base]).stdout.strip()}
    try:
        # the agent's demo refers to its own worktree path: rewrite to ours
        os.makedirs(os.path.join(wt, "_seed"), exist_ok=True)
        for name in os.listdir(seed_dir):   # the demo may come with helper modules
            srcp = os.path.join(seed_dir, name)
            if os.path.isfile(srcp) and name.endswith((".py", ".json")):
                text = open(srcp, encoding="utf-8").read().replace(a.agent_wt.rstrip("/"), wt)
                open(os.path.join(wt, "_seed", name), "w", encoding="utf-8").write(text)
        env = {**os.environ, "PYTHONDONTWRITEBYTECODE": "1"}
        d0 = sh([PY, "-B", "_seed/demo.py"], cwd=wt, env=env, timeout=1800)
        meta["demo_exit_without_change"] = d0.returncode
        r = sh(["git", "-C", wt, "apply", "--whitespace=nowarn", patch])
        if r.returncode:
            print("patch does not apply:", r.stderr[:500])
            meta["patch_applies"] = False
            print(json.dumps(meta, indent=1))
            return 2
        meta["patch_applies"] = True
        meta["files_changed"] = sh(["git", "-C", wt, "diff", "--stat"]).stdout.strip().splitlines()[-1:]
        t = sh([PY, "-B", "-m", "pytest", "-q", "-p", "no:cacheprovider"], cwd=wt, env=env, timeout=1800)
        meta["tests"] = t.stdout.strip().splitlines()[-1:] if t.stdout.strip() else [t.stderr[-200:]]
        meta["tests_pass"] = t.returncode == 0
        d1 = sh([PY, "-B", "_seed/demo.py"], cwd=wt, env=env, timeout=1800)
        meta["demo_exit_with_change"] = d1.returncode
        meta["demo_output_with_change"] = (d1.stdout + d1.stderr)[-600:]
        confirmed = meta["tests_pass"] and d1.returncode != 0 and d0.returncode == 0
        meta["confirmed"] = confirmed
        checks = (a.checks or a.prop).split(",")
        meta["checks"] = {}
        for c in checks:
            for seed in a.seeds.split(","):
                t0 = time.time()
                r = sh([os.path.join(HERE, "check"), c, "--tier", a.tier], cwd=HERE,
                       env={**os.environ, "LSPVERIF_REPO": wt, "VERIF_SEED": seed}, timeout=7200)
                verdict = {0: "missed", 1: "CAUGHT", 2: "harness-error"}.get(r.returncode, str(r.returncode))
                vio = [ln for ln in r.stdout.splitlines() if ln.startswith("  signature=")][:3]
                meta["checks"][f"{c}@{a.tier}@seed{seed}"] = {"verdict": verdict, "wall_s": round(time.time() - t0, 1), "first_violations": vio,
                                                               "stderr_tail": r.stderr[-300:] if r.returncode == 2 else ""}
        print(json.dumps(meta, indent=1))
        if a.keep:
            dst = os.path.join(HERE, "seeded", a.keep)
            os.makedirs(dst, exist_ok=True)
            shutil.copy(patch, os.path.join(dst, "patch.diff"))
            for name in os.listdir(seed_dir):
                srcp = os.path.join(seed_dir, name)
                if os.path.isfile(srcp) and name.endswith((".py", ".json")):
                    open(os.path.join(dst, name), "w", encoding="utf-8").write(open(srcp, encoding="utf-8").read().replace(a.agent_wt.rstrip("/"), "/tmp/seed-worktree"))
            notes = os.path.join(seed_dir, "notes.md")
            if os.path.exists(notes):
                shutil.copy(notes, os.path.join(dst, "notes.md"))
            with open(os.path.join(dst, "meta.json"), "w") as f:
                json.dump(meta, f, indent=1)
        return 0
    finally:
        sh(["git", "-C", "/repo", "worktree", "remove", "--force", wt])
        shutil.rmtree(wt, ignore_errors=True)
        sh(["git", "-C", HERE, "checkout", "--", "evidence"])


if __name__ == "__main__":
    sys.exit(main())
