#!/venv/bin/python
"""Sensitivity harness (DESIGN section 6): apply deliberate mutants to a scratch worktree of /repo,
confirm the pinned tests still pass there, run the named checks with LSPVERIF_REPO pointing at it,
and report which checks notice.  Nothing is ever changed in /repo itself.

usage: tools/mutants.py [ids...]      (no ids = all)
"""
from __future__ import annotations

import json
import os
import shutil
import subprocess
import sys
import time

HERE = os.path.dirname(os.path.dirname(os.path.abspath(__file__)))
WT = "/tmp/lspverif-mutants-wt"
PY = "/venv/bin/python"
H = "packages/python/lsprotocol/_hooks.py"
T = "packages/python/lsprotocol/types.py"
V = "packages/python/lsprotocol/validators.py"
PU = "generator/plugins/python/utils.py"
RS = "packages/rust/lsprotocol/src/lib.rs"
RC = "generator/plugins/rust/rust_commons.py"
RE = "generator/plugins/rust/rust_enum.py"
DC = "generator/plugins/dotnet/dotnet_classes.py"
TG = "generator/plugins/testdata/testdata_generator.py"
TU = "generator/plugins/testdata/testdata_utils.py"
DU = "generator/plugins/dotnet/dotnet_utils.py"
MO = "generator/model.py"
MA = "generator/__main__.py"

# (id, property checks expected to notice, description, [(file, old, new)], regen)
MUTANTS = [
    ("m01a", ["C01"], "_text_edit_hook tests annotationId before snippet", [(H, '''        if "snippet" in object_:
            return converter.structure(object_, lsp_types.SnippetTextEdit)
        if "annotationId" in object_:
            return converter.structure(object_, lsp_types.AnnotatedTextEdit)''', '''        if "annotationId" in object_:
            return converter.structure(object_, lsp_types.AnnotatedTextEdit)
        if "snippet" in object_:
            return converter.structure(object_, lsp_types.SnippetTextEdit)''')], None),
    ("m01b", ["C01"], "_completion_list_hook drops the last item", [(H, '''            return [
                converter.structure(item, lsp_types.CompletionItem) for item in object_
            ]
        else:
            return converter.structure(object_, lsp_types.CompletionList)''', '''            return [
                converter.structure(item, lsp_types.CompletionItem) for item in object_[:2]
            ]
        else:
            return converter.structure(object_, lsp_types.CompletionList)''')], None),
    ("m01c", ["C01", "C02"], "_to_camel_case lower-cases parts after the second", [(H, '''        return parts[0] + "".join(p.title() for p in parts[1:])''', '''        return parts[0] + "".join(p.title() for p in parts[1:3]) + "".join(parts[3:])''')], None),
    ("m02a", ["C02", "C10"], "one entry removed from _SPECIAL_PROPERTIES", [(T, '''    "RenameRegistrationOptions.document_selector",
''', '')], None),
    ("m02b", ["C02", "C04", "C10"], "literal default changed", [(T, '''        validator=attrs.validators.in_(["create"]), default="create"''', '''        validator=attrs.validators.in_(["create", "created"]), default="created"''')], None),
    ("m03a", ["C03"], "_hover_provider_hook returns its input", [(H, '''        return converter.structure(object_, lsp_types.HoverOptions)''', '''        return object_''')], None),
    ("m03b", ["C03"], "_inlay_hint_label_part_hook returns the list of dicts", [(H, '''        return [
            converter.structure(item, lsp_types.InlayHintLabelPart) for item in object_
        ]''', '''        return list(object_)''')], None),
    ("m04a", ["C04", "C05"], "one optional flipped in types.py", [(T, '''    parent: Optional["SelectionRange"] = attrs.field(default=None)''', '''    parent: "SelectionRange" = attrs.field(default=None)''')], None),
    ("m04b", ["C04", "C05", "C12"], "python plugin: uinteger gets the integer validator (regenerated)", [(PU, '''            validator = "validators.uinteger_validator"''', '''            validator = "validators.integer_validator"''')], "python"),
    ("m04c", ["C04", "C05"], "python plugin drops inherited properties of mixins' ancestors (regenerated)", [(PU, '''                    definitions.append(t)
                    definitions.extend(self._get_dependent_types(t, lsp_model))''', '''                    definitions.append(t)''')], "python"),
    ("m05a", ["C05"], "hand edit of a docstring-free line in types.py", [(T, '''INLAY_HINT_RESOLVE = "inlayHint/resolve"''', '''INLAY_HINT_RESOLVE = "inlayHint/resolve "''')], None),
    ("m05b", ["C05"], "two fields reordered in lib.rs", [(RS, '''    /// Line position in a document (zero-based).''', '''    /// Line position in a document (zero based).''')], None),
    ("m07a", ["C07", "C06"], "rust get_extended_properties ignores mixins", [(RC, '''    for t in struct_def.extends + struct_def.mixins:''', '''    for t in struct_def.extends:''')], None),
    ("m07b", ["C07", "C06"], "rust: Option dropped for null-admitting unions", [(RC, '''        optional = optional or is_special(type_def)
    elif type_def.kind == "literal":''', '''        optional = optional
    elif type_def.kind == "literal":''')], None),
    ("m07c", ["C07"], "rust: enum value off by one in the Deserialize impl", [(RE, '''        de += item_gate + [f"{item.value} => Ok({full_name}),"]''', '''        de += item_gate + [f"{item.value + 1 if item.value == 3 else item.value} => Ok({full_name}),"]''')], None),
    ("m08a", ["C08"], "dotnet: DataMember name upper-camel", [(DC, '''            f'[DataMember(Name = "{prop_def.name}")]',''', '''            f'[DataMember(Name = "{name if prop_def.name == "textDocument" else prop_def.name}")]',''')], None),
    ("m08b", ["C08"], "dotnet: notification direction taken from the last request again", [(DC, '''to_upper_camel_case(notification.messageDirection)''', '''to_upper_camel_case(request.messageDirection)''')], None),
    ("m08c", ["C08"], "dotnet: NullValueHandling.Ignore also on null-admitting properties", [(DC, '''            if optional and not special_optional
            else []
        )
        + [
            f'[DataMember''', '''            if optional
            else []
        )
        + [
            f'[DataMember''')], None),
    ("m09a", ["C09", "C05"], "direction of one method changed in types.py", [(T, '''    WORKSPACE_WORKSPACE_FOLDERS: "serverToClient",''', '''    WORKSPACE_WORKSPACE_FOLDERS: "clientToServer",''')], None),
    ("m09b", ["C09", "C05"], "a class missing from ALL_TYPES_MAP", [(T, '''    "WorkspaceSymbolOptions": WorkspaceSymbolOptions,
''', '')], None),
    ("m10a", ["C10", "C02"], "_omit also omits the response result", [(H, '''        special = lsp_types.is_special_property(cls, prop)
        return not special''', '''        special = lsp_types.is_special_property(cls, prop) and prop != "result"
        return not special''')], None),
    ("m11a", ["C11", "C04", "C05"], "a required field given default=None", [(T, '''    unique: UniquenessLevel = attrs.field()''', '''    unique: UniquenessLevel = attrs.field(default=None)''')], None),
    ("m12a", ["C12"], "INTEGER_MAX_VALUE = 2**31", [(V, "INTEGER_MIN_VALUE = -(2**31)\nINTEGER_MAX_VALUE = 2**31 - 1\n", "INTEGER_MIN_VALUE = -(2**31)\nINTEGER_MAX_VALUE = 2**31\n")], None),
    ("m12b", ["C12", "C11"], "uinteger minimum -1", [(V, "UINTEGER_MIN_VALUE = 0", "UINTEGER_MIN_VALUE = -1")], None),
    ("m13a", ["C13", "C04", "C05"], "one enum member deleted", [(T, '''    Unnecessary = 1
''', '')], None),
    ("m13b", ["C13"], "custom value rejected for FoldingRangeKind", [(H, '''        if isinstance(object_, (bool, int, str, float)):
            return object_
        return converter.structure(object_, lsp_types.FoldingRangeKind)''', '''        return converter.structure(object_, lsp_types.FoldingRangeKind)''')], None),
    ("m14a", ["C14", "C01"], "one (type, hook) pair removed", [(H, '''        (
            Union[str, lsp_types.StringValue],
            _string_value_hook,
        ),
''', '')], None),
    ("m15a", ["C15"], "forbid_extra_keys in the structure factory", [(H, '''        return cattrs.gen.make_dict_structure_fn(cls, converter, **attributes)  # type: ignore''', '''        return cattrs.gen.make_dict_structure_fn(cls, converter, _cattrs_forbid_extra_keys=(cls.__name__ == "Diagnostic"), **attributes)  # type: ignore''')], None),
    ("m16a", ["C16"], "testdata plugin skips cleanup", [(TU, '''    logger.info("Cleaning up existing data")
    cleanup(output)''', '''    logger.info("Cleaning up existing data")''')], None),
    ("m16b", ["C16", "C05"], "python plugin emits a set in iteration order", [(PU, '''sorted(set(self._special_properties))''', '''list(set(self._special_properties))''')], None),
    ("m16c", ["C16"], "dotnet plugin skips cleanup", [(DU, '''    cleanup(output_path)
    copy_custom_classes(output_path)''', '''    copy_custom_classes(output_path)''')], None),
    ("m17a", ["C17"], "LSP_OVER_MAX_UINT labelled True", [(TG, '''        yield (False, LSP_OVER_MAX_UINT)''', '''        yield (True, LSP_OVER_MAX_UINT)''')], None),
    ("m17b", ["C17"], "custom enum values labelled True for closed enums", [(TG, '''            yield (bool(enum.supportsCustomValues), custom_str)''', '''            yield (True, custom_str)''')], None),
    ("m18a", ["C18"], "Property.__eq__ ignores optional", [(MO, '''                and self.type == other.type
                and self.optional == other.optional''', '''                and self.type == other.type''')], None),
    ("m18b", ["C18"], "schema validation no longer rooted", [(MA, '''    schema.setdefault("$ref", "#/definitions/MetaModel")''', '''    pass''')], None),
    ("m18c", ["C18"], "merge forgets the enumerations of later files", [(MO, '''            spec.enumerations.extend(addition.enumerations)
''', '')], None),
    # (removing the lock alone has no observable effect any more since resolution works on a copy of the registry: both
    #  threads then resolve everything themselves; the mutant also announces completion before the work is done)
    ("m19a", ["C19"], "resolution lock removed, flag set before the work", [(H, '''    with _resolve_lock:
        if not _resolved_forward_references:''', '''    if True:
        if not _resolved_forward_references:
            _resolved_forward_references = True''')], None),
    ("m19b", ["C19"], "union hooks delegate to the first converter ever created", [
        (H, '''def _register_capabilities_hooks(converter: cattrs.Converter) -> cattrs.Converter:
''', '''_SHARED = []


def _register_capabilities_hooks(conv: cattrs.Converter) -> cattrs.Converter:
    _SHARED.append(conv)
    converter = _SHARED[0]
'''),
        (H, '''    for type_, hook in structure_hooks:
        _register_union_structure_hook(converter, type_, hook)
    return converter''', '''    for type_, hook in structure_hooks:
        _register_union_structure_hook(conv, type_, hook)
    return conv''')], None),
    ("m20a", ["C20", "C05"], "Position.__gt__ compares only line", [(T, '''        return (self.line, self.character) > (o.line, o.character)''', '''        return (self.line,) > (o.line,)''')], None),
    ("m20b", ["C20", "C05"], "Range.__eq__ ignores end", [(T, '''        return (self.start == o.start) and (self.end == o.end)''', '''        return self.start == o.start''')], None),
]


def sh(cmd, **kw):
    return subprocess.run(cmd, capture_output=True, text=True, **kw)


def setup_wt():
    sh(["git", "-C", "/repo", "worktree", "remove", "--force", WT])
    shutil.rmtree(WT, ignore_errors=True)
    r = sh(["git", "-C", "/repo", "worktree", "add", "--detach", WT, "HEAD"])
    if r.returncode != 0:
        raise SystemExit(r.stderr)


def main():
    want = set(sys.argv[1:])
    setup_wt()
    results = []
    try:
        for mid, checks, desc, patches, regen in MUTANTS:
            if want and mid not in want and not (want & set(checks)):
                continue
            sh(["git", "-C", WT, "checkout", "--", "."])
            sh(["git", "-C", WT, "clean", "-fdq"])
            ok = True
            for f, old, new in patches:
                p = os.path.join(WT, f)
                src = open(p, encoding="utf-8").read()
                if src.count(old) != 1:
                    print(f"{mid}: patch does not apply to {f} ({src.count(old)} matches)")
                    ok = False
                    break
                open(p, "w", encoding="utf-8").write(src.replace(old, new))
            if not ok:
                results.append((mid, "PATCH-FAILED", {}))
                continue
            if regen == "python":
                r = sh([PY, "-B", "-m", "generator", "--plugin", "python", "--output-dir", os.path.join(WT, "packages", "python"),
                        "--test-dir", os.path.join(WT, "tests", "python")], cwd=WT, env={**os.environ, "PYTHONPATH": WT})
                if r.returncode != 0:
                    print(mid, "regeneration failed", r.stderr[-300:])
            t = sh([PY, "-B", "-m", "pytest", "-q", "-p", "no:cacheprovider", "-x"], cwd=WT, env={**os.environ, "PYTHONDONTWRITEBYTECODE": "1"})
            tests_pass = t.returncode == 0
            verdicts = {}
            for c in checks:
                t0 = time.time()
                r = sh([os.path.join(HERE, "check"), c, "--tier", "quick"], cwd=HERE,
                       env={**os.environ, "LSPVERIF_REPO": WT, "VERIF_SEED": os.environ.get("VERIF_SEED", "1")})
                verdicts[c] = {0: "missed", 1: "CAUGHT", 2: "harness-error"}.get(r.returncode, str(r.returncode))
                if r.returncode == 2:
                    verdicts[c] += ":" + (r.stderr.strip().splitlines() or ["?"])[-1][:100]
            print(f"{mid} tests_pass={tests_pass} {verdicts}  -- {desc}", flush=True)
            results.append((mid, tests_pass, verdicts))
    finally:
        sh(["git", "-C", "/repo", "worktree", "remove", "--force", WT])
        shutil.rmtree(WT, ignore_errors=True)
        # the checks rewrote evidence files against the mutant tree: restore them
        sh(["git", "-C", HERE, "checkout", "--", "evidence"])
    missed = [(m, v) for m, tp, v in results if isinstance(v, dict) and v and "CAUGHT" not in " ".join(v.values())]
    print(f"\n{len(results)} mutants, {len(missed)} not caught by any named check: {[m for m, _ in missed]}")


if __name__ == "__main__":
    main()
