#!/venv/bin/python
"""Regenerates /verif/MANIFEST.json from the table below and validates it."""
import json, os, sys
HERE = os.path.dirname(os.path.dirname(os.path.abspath(__file__)))

CHECKS = {
 "C01": dict(cat="exploration", technique="property-based testing (Hypothesis): typed-value generator + round-trip oracle",
   text="Hypothesis generates metamodel-valid typed values for every root type; parse->serialise is compared with the input under the documented null rule by an oracle derived from lsp.json, not from the package. Sampling of an infinite value space with measured class coverage; no proof of absence. Adds routed cases for every union alternative at its use sites, member-order variation of every generated object, deep chains at self-recursive positions and (thorough) coverage-guided atheris campaigns over the same strategy.",
   note="trusted: lspverif/refmodel.py reading of lsp.json; optional non-special `p: null` == absent; generator depth<=5, collections<=3; self-recursive positions pinned to 25/100 levels, and grafted / payload values 600 levels deep with a metamorphic oracle (known finding KF-nesting-beyond-recursion-limit)", ref="3/C01"),
 "C02": dict(cat="exploration", technique="property-based testing (Hypothesis): constructor path vs exact normal form + fix-point",
   text="Hypothesis-generated typed values are turned into nested constructor calls; the serialised object must equal the normal form NF(tv) computed from lsp.json exactly (both directions), and parse+serialise of that output must be a fix-point. Sampling with measured coverage.",
   note="trusted: refmodel/NF definition; enumeration-typed constructor arguments are members or the plain values of j (both are drawn)", ref="3/C02"),
 "C03": dict(cat="exploration", technique="property-based testing (Hypothesis): metamodel-directed instance-of walk",
   text="Every successfully structured generated value is walked under the metamodel type: classes, sequences, tuples, maps, base types, enum members, and at unions an alternative the input was valid for. Sampling with measured coverage.",
   note="trusted: refmodel validity (non-strict) to decide which alternatives the input was valid for", ref="3/C03"),
 "C04": dict(cat="exploration", technique="exhaustive enumeration of declarations against an independent mapping + Hypothesis constructor probes",
   text="Finite domain enumerated completely in both directions (every declaration of lsp.json, every definition of lsprotocol.types); the oracle is an independent re-implementation of the documented type/validator mapping; wrongly typed constructor arguments are generated to confirm the validators dynamically.",
   note="trusted: the mapping as documented in the plugin's comments and re-stated in props/c04.py; typing's Union equality", ref="3/C04"),
 "C09": dict(cat="exploration", technique="exhaustive enumeration of methods x facets and of the registry",
   text="All 95 methods x 7 facets and all registry names are enumerated and compared with relations derived from lsp.json; complete for the finite domain.",
   note="trusted: message-class naming rule and UPPER_SNAKE derivation re-implemented in refmodel.py; the forward-reference scan also runs in a fresh process of every installed interpreter 3.8-3.13 (known finding KF-py38-alias-chain-forward-refs), together with a comparison of the registry keys before and after the first converter", ref="3/C09"),
 "C15": dict(cat="exploration", technique="property-based testing (Hypothesis): metamorphic insertion of undeclared keys",
   text="Metamorphic: generated valid values get fresh undeclared keys with arbitrary JSON payloads at generated protocol-object nodes; result object and re-serialisation must be unchanged. Names include node-relative respellings (snake/kebab/Pascal...) of the node's own properties and names meaningful to Python.",
   note="fresh = declared nowhere in the metamodel; payload/map positions excluded", ref="3/C15"),
 "C20": dict(cat="exploration", technique="exhaustive boundary grid + Hypothesis random pairs against tuple comparison",
   text="625 grid pairs x 6 operators exhaustively, random uinteger pairs, ranges/locations, foreign objects; oracle is Python tuple comparison and the stated repr format. Operands and nested components that are instances of derived classes, and a mutation state machine.",
   note="coordinates are valid uintegers", ref="3/C20"),

 "C10": dict(cat="exploration", technique="exhaustive over attributes x Hypothesis-generated surroundings; null-vs-omitted oracle from lsp.json",
   text="Every attribute of every generated class is toggled between set / null / unset inside generated valid objects, serialised through the constructor path and parsed with the key deleted; the oracle is the rule as stated, computed from lsp.json.",
   note="exhaustive in (class, attribute), sampled in surroundings; the error reply's id is integer | string | null (base protocol)", ref="3/C10"),
 "C11": dict(cat="exploration", technique="property-based testing (Hypothesis): single-field mutation of valid values must be rejected",
   text="Exhaustive over root-level (structure, property, edit) triples with generated surroundings plus random nested edit sites; each of the four stated edits must make structuring raise.",
   note="edit sites never lie below a real union; CompletionItemKind is open (documented customisation); integer | null counts as an integer property; numbers outside a range by less than one are an edit kind of their own (known finding KF-fraction-cut-off-into-range)", ref="3/C11"),
 "C12": dict(cat="exploration", technique="exhaustive boundary grid x attributes + Hypothesis ints; range predicate oracle at both entry points; validator fuzzing",
   text="All directly integer-typed attributes x the boundary set exhaustively and random ints through constructor and converter (same verdict, equal to the range predicate); the two validator functions with arbitrary Python values. Numbers are also given as int-subclass instances and as members of the package's integer enumerations; the validator pool has values whose text is very long (10**5000) or cannot be produced (formatting raises).",
   note="bool excluded from the int verdict", ref="3/C12"),
 "C13": dict(cat="exploration", technique="exhaustive enumeration of enum values and use sites + Hypothesis custom/outside values",
   text="Static comparison of all enumerations (multiset of values, both directions) and, at every use site and root, every declared value must parse/round-trip, custom values for open enumerations, outside values rejected for closed ones when no reading makes the root valid.",
   note="alias objects are not used as roots (C01 known finding)", ref="3/C13"),
 "C14": dict(cat="exploration", technique="exhaustive over (union occurrence, alternative, use site) with Hypothesis-generated shapes; C03 predicate as oracle",
   text="Every union occurrence of lsp.json is pinned to each alternative at every use site inside a generated valid root, in minimal/maximal/random shapes; structuring must not raise and must yield an alternative the value is valid for.",
   note="partialResult/errorData unions have no typed surface in the package and are listed as unreachable in the evidence", ref="3/C14"),

 "C05": dict(cat="exploration", technique="exhaustive differential: fresh generator output vs committed files, statement/item aligned, under generated hash seeds",
   text="The python and rust plugins are run from the working tree under Hypothesis-drawn PYTHONHASHSEEDs; all 795 statements of types.py (AST modulo docstring whitespace) and all items of lib.rs (byte-identical after rustfmt) are compared both ways with the committed files. Complete for the finite domain. The same comparison is applied to whatever a single invocation with several or no --plugin options writes.",
   note="rustfmt --edition 2021 stands for the build's formatter; no ruff offline, so Python is compared as AST with docstrings line-stripped", ref="3/C05"),
 "C07": dict(cat="exploration", technique="exhaustive enumeration of emitted Rust items against an independent mapping (text analyser, fail-closed)",
   text="Every item of the lib.rs emitted from the working tree (and of the committed copy) is parsed and compared with an independent re-statement of the mapping: field-name sets under serde's rename rule, type trees, Option wrapping, enum discriminants incl. the hand-written impls, untagged aliases, message structs, method enums, feature gates; both directions.",
   note="declarations only - serde runtime behaviour is not exercised (no crates offline); the params type of a message struct is compared for references to structures that have properties (the plugin types the params of property-less structures as LSPAny); the structs of anonymous literals are held to the same field checks as the structs of structures", ref="3/C07"),
 "C08": dict(cat="exploration", technique="exhaustive enumeration of emitted C# files against an independent mapping (text analyser, fail-closed)",
   text="Every .cs file the dotnet plugin writes from the working tree is parsed; DataMember sets, type trees, nullability, NullValueHandling, constructor assignment, enum values and the per-method metadata table (LSPRequest/LSPResponse pairing, LSPMethods constants, Direction) are compared with lsp.json. At every position of an anonymous literal the C# type written there must name a generated class of its own whose data members are the literal's properties.",
   note="declarations only (no .NET SDK); the nullable / null-ignoring rule is applied to array and map members as well (known finding KF-dotnet-optional-collections); a notification class carries its method through its LSPMethods constant (the plugin puts no attribute on the class)", ref="3/C08"),
 "C17": dict(cat="exploration", technique="exhaustive over all emitted vectors against an independent strict validator + converter acceptance",
   text="All vectors written by a real CLI run of the testdata plugin are named/hashed correctly, labelled exactly as an independent strict metamodel validator decides, every message class has a True vector and every True vector is accepted by the Python converter.",
   note="validator's lenient choices (open empty objects, null params only when undeclared) are stated in the evidence; result together with error in a True response vector is judged separately (known finding KF-testdata-result-and-error)", ref="3/C17"),

 "C06": dict(cat="exploration", technique="property-based testing over generated programs (Hypothesis edit sequences on the metamodel) with the other properties' oracles re-instantiated",
   text="Metamodels are generated as schema-valid edit sequences of lsp.json and given to all four plugins; plugin termination, import of the generated module and the C01-C04/C07-C10/C17 oracles are evaluated for the evolved model. Samples an unbounded family bounded by <=6 edits and the stated type grammar. Every evolved document is also cut into two model files at drawn indices (metamorphic: merge is concatenation, the output must not change); standing foci keep one production per past defect.",
   note="grammar excludes general unions, open-enum references and union aliases (they need hand-written hooks); rustfmt acceptance stands for 'parses'", ref="3/C06"),
 "C18": dict(cat="exploration", technique="property-based testing (Hypothesis): read-back/concatenation/equality oracles over generated documents and generated schema-violating edits",
   text="Generated schema-valid documents (evolved models, schema-directed mutations) are loaded and read back generically; merges compared with list concatenation; structural single edits must compare unequal and comparisons never raise; schema-violating single edits x 4 plugins x position must fail before any plugin runs and write nothing (spy + real CLI sample). Model files also go through the real command under a non-UTF-8 locale encoding, and several files both as one option with two values and as a repeated option. Open/closed enumeration and typeName count as structural edits.",
   note="schema-valid = valid against the MetaModel definition; annotation-only edits are not required to be unequal", ref="3/C18"),

 "C16": dict(cat="exploration", technique="stateful property-based testing (Hypothesis RuleBasedStateMachine) over output-directory histories x hash seeds",
   text="Per plugin a state machine runs the real generator CLI repeatedly into one directory with generated model lists, hash seeds and planted stale files; after every run the digest map of the plugin-owned files must equal the fresh-directory reference computed in another process under another hash seed. Runs vary working directory, path spelling, search path, clock/user/machine; configuration files of formatters and build tools are planted in the output tree; an in-process history generates again from the same model object. Output directories are also called like the plugin (named relative to their parent), hold the package directory or another plugin's output before the first run; variants of the rust test harness (markers missing/swapped/with trailing blanks, CRLF, blank lines at the end) must be fixed points of the run; one model object is handed to several plugins in turn inside one process.",
   note="owned-file patterns as listed in the evidence; slow plugins use reduced closed sub-models in the quick tier", ref="3/C16"),
 "C19": dict(cat="exploration", technique="harness-owned thread scheduler (sys.settrace yield points, Hypothesis-generated schedules, forked pristine children) + stateful creation histories",
   text="First-use concurrency is explored under a deterministic scheduler that owns the interleaving at line granularity inside the forward-reference resolution; creation histories over fresh/user-supplied converters are checked by a rule-based state machine against a battery; thorough adds real-thread trials. Schedules continue into each thread's first use (in-thread observations compared); histories contain creations cut short by injected asynchronous exceptions / RecursionError followed by a wide battery; every non-customised configuration is compared with get_converter() on routed values of every union alternative (JSON and object classes). User-supplied kinds include cattrs preconf (json) converters and a converter with cattrs' union passthrough.",
   note="switches inside C code are not controlled; outcomes compared as raised/JSON, not exception types; time-outs are inconclusive", ref="3/C19"),
}

def main():
    checks = []
    for pid, c in sorted(CHECKS.items()):
        checks.append({
            "property_id": pid,
            "quick_cmd": f"./check {pid} --tier quick",
            "thorough_cmd": f"./check {pid} --tier thorough",
            "evidence_file": f"evidence/{pid}.json",
            "replay_cmd_template": f"./check {pid} --replay {{path}}",
            "engine": "lspverif",
            "level_claimed": {"category": c["cat"], "text": c["text"], "design_ref": f"DESIGN.md section {c['ref']}"},
            "level_note": c["note"],
            "technique": c["technique"],
        })
    props = [json.loads(l)["id"] for l in open(os.path.join(HERE, "properties.jsonl"))]
    na = [{"property_id": p, "reason": "no check registered"} for p in props if p not in CHECKS]
    man = {
        "version": 1,
        "setup_cmd": "./setup.sh",
        "hooks": {
            "guard": "LSPROTOCOL_VERIF",
            "enable": "no repository hooks are needed; checks import /repo's working tree directly (LSPVERIF_REPO overrides the path)",
            "baseline_off_cmd": "cd /repo && /venv/bin/python -m pytest -ra -q -p no:cacheprovider --timeout=900 --continue-on-collection-errors",
            "source_commits": [],
            "add_only": True,
        },
        "engines": [{"name": "lspverif", "path": "lspverif/", "serves_properties": sorted(CHECKS), "kind_free_text": "Hypothesis-driven property-based testing and exhaustive finite enumeration with independent metamodel oracles"}],
        "checks": checks,
        "not_applicable": na,
        "notes": "All checks: exit 0 held / 1 violation (VIOLATION line) / 2 harness error. VERIF_SEED and VERIF_TIER honoured.",
    }
    with open(os.path.join(HERE, "MANIFEST.json"), "w") as f:
        json.dump(man, f, indent=1)
    import jsonschema
    jsonschema.validate(man, json.load(open("/root/.vp/MANIFEST.schema.json")))
    print("MANIFEST.json written:", len(checks), "checks,", len(na), "not_applicable")

if __name__ == "__main__":
    main()
