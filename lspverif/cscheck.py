"""Text analyser for the generated .NET sources and the C08 oracle (DESIGN 2.5, 3/C08).

Input: {file name: text} as written by the dotnet plugin + the metamodel document.
Fails closed: a class body line the parser does not understand raises HarnessError.
"""
from __future__ import annotations

import re
from typing import Any, Dict, List, Optional, Tuple

from .refmodel import Model
from .runner import HarnessError

CLASS_RE = re.compile(r"^public\s+(?:static\s+)?(record|class|enum)\s+(\w+)\s*(?::\s*(.*))?$")
PROP_RE = re.compile(r"^public\s+(?P<type>.+?)\s+(?P<name>\w+)\s*\{\s*(?P<acc>get.*)\}\s*(?:=\s*(?P<init>.+);)?$")
PRIVATE_RE = re.compile(r"^private\s+(.+?)\s+(\w+);$")
DATAMEMBER_RE = re.compile(r'^\[DataMember\(Name = "((?:\\.|[^"\\])*)"\)\]$')
ASSIGN_RE = re.compile(r"^(\w+)\s*=\s*(\w+);$")
PARTS_RE = re.compile(r"(([a-z0-9])([A-Z]))")


def get_parts(name: str) -> List[str]:
    return PARTS_RE.sub(r"\2 \3", name.replace("_", " ")).split()


def upper_camel(name: str) -> str:
    return "".join(c.capitalize() for c in get_parts(name))


def method_const_name(method: str) -> str:
    if method.startswith("$"):
        method = method[1:]
    return upper_camel(method.replace("/", "_"))


def canon(t: str) -> str:
    return re.sub(r"\s+", "", t)


class CsClass:
    def __init__(self, kind: str, name: str, derived: Optional[str]):
        self.kind, self.name, self.derived = kind, name, derived
        self.attrs: List[str] = []
        self.props: List[dict] = []        # {wire, type, nullable, name, attrs, init}
        self.ctor_params: List[dict] = []  # {type, name, default}
        self.ctor_assign: Dict[str, str] = {}
        self.has_ctor = False
        self.members: List[dict] = []      # enum: {name, value}
        self.statics: Dict[str, str] = {}  # static string constants
        self.static_dups: List[str] = []
        self.odd_members: List[str] = []


def split_params(s: str) -> List[str]:
    out, depth, cur = [], 0, ""
    for ch in s:
        if ch in "<(":
            depth += 1
        elif ch in ">)":
            depth -= 1
        if ch == "," and depth == 0:
            out.append(cur.strip())
            cur = ""
        else:
            cur += ch
    if cur.strip():
        out.append(cur.strip())
    return out


# C# treats these as line terminators too: inside a generated string literal or `//` comment they cut the line
CS_NEWLINES = "\u0085\u2028\u2029"
_CS_STRING = r'"(?:\\(?:[\\\'"0abfnrtv]|u[0-9a-fA-F]{4}|U[0-9a-fA-F]{8}|x[0-9a-fA-F]{1,4})|[^"\\])*"'
_CS_VALUE = rf'(?:{_CS_STRING}|typeof\((?:[^()"]|\([^()"]*\))*\)|-?\d+|[A-Za-z_][\w.]*)'
_CS_ARG = rf'(?:[A-Za-z_]\w*\s*=\s*)?{_CS_VALUE}'
ATTR_GROUP_RE = re.compile(rf'\[[A-Za-z_][\w.]*(?:\((?:{_CS_ARG}(?:,\s*{_CS_ARG})*)?\))?\]')


def attribute_prefix_ok(line: str) -> bool:
    """line starts with `[`: it must be a sequence of well-formed attribute groups (string arguments are closed regular
    string literals with valid escapes), optionally followed by an enum member name and a comma."""
    pos = 0
    while pos < len(line) and line[pos] == "[":
        m = ATTR_GROUP_RE.match(line, pos)
        if not m:
            return False
        pos = m.end()
        while pos < len(line) and line[pos] == " ":
            pos += 1
    return re.fullmatch(r"(?:\w+,)?", line[pos:]) is not None


def parse_file(fname: str, text: str, strict=None, malformed: Optional[List[str]] = None) -> List[CsClass]:
    if malformed is not None:
        for ch in CS_NEWLINES:
            if ch in text:
                malformed.append(f"{fname}: the character U+{ord(ch):04X} (a line terminator of C#) occurs inside the generated source")
                text = text.replace(ch, " ")
        for raw in text.splitlines():
            s = raw.strip()
            if s.startswith("[") and not attribute_prefix_ok(s):
                malformed.append(f"{fname}: malformed attribute line {s[:120]!r}")
    lines = [ln.strip() for ln in text.splitlines()]
    out: List[CsClass] = []
    i = 0
    pending_attrs: List[str] = []
    cur: Optional[CsClass] = None
    depth = 0
    n = len(lines)
    while i < n:
        ln = lines[i]
        i += 1
        if not ln or ln.startswith("//") or ln.startswith("using ") or ln.startswith("namespace "):
            continue
        if cur is None:
            if ln.startswith("["):
                pending_attrs.append(ln)
                continue
            m = CLASS_RE.match(ln)
            if m:
                cur = CsClass(m.group(1), m.group(2), m.group(3))
                cur.attrs = pending_attrs
                pending_attrs = []
                out.append(cur)
                depth = 0
                continue
            if ln in ("{", "}"):
                continue
            raise HarnessError(f"csparse: {fname}: unexpected top-level line {ln!r}")
        # inside a class
        if ln == "{":
            depth += 1
            continue
        if ln == "}":
            depth -= 1
            if depth == 0:
                cur = None
                pending_attrs = []
            continue
        if depth != 1:
            continue  # nested blocks (ctor bodies are consumed below; converter classes have code)
        if cur.kind == "enum":
            if ln.startswith("["):
                m = re.match(r'^\[EnumMember\(Value = "((?:\\.|[^"\\])*)"\)\](\w+),$', ln)
                if not m:
                    raise HarnessError(f"csparse: {fname}: enum line {ln!r}")
                cur.members.append({"name": m.group(2), "value": m.group(1)})
                continue
            m = re.match(r"^(\w+)\s*=\s*(-?\d+),$", ln)
            if m:
                cur.members.append({"name": m.group(1), "value": int(m.group(2))})
                continue
            raise HarnessError(f"csparse: {fname}: enum line {ln!r}")
        if ln.startswith("["):
            pending_attrs.append(ln)
            continue
        if ln.startswith("public static string"):
            m = re.match(r'^public static string (\w+) \{ get; \} = "((?:\\.|[^"\\])*)";$', ln)
            if not m:
                raise HarnessError(f"csparse: {fname}: static line {ln!r}")
            if m.group(1) in cur.statics:
                cur.static_dups.append(m.group(1))
            cur.statics[m.group(1)] = m.group(2)
            pending_attrs = []
            continue
        if "[JsonConstructor]" in pending_attrs and ln.startswith(f"public {cur.name}("):
            pending_attrs = []
            cur.has_ctor = True
            sig = ln[len(f"public {cur.name}("):]
            while not sig.rstrip().endswith(")") or sig.count("(") + 1 != sig.count(")"):
                if i >= n:
                    raise HarnessError(f"csparse: {fname}: unterminated constructor")
                sig += " " + lines[i]
                i += 1
            sig = sig.rstrip()[:-1]
            for prm in split_params(sig):
                default = None
                if "=" in prm:
                    prm, default = [x.strip() for x in prm.split("=", 1)]
                ty, nm = prm.rsplit(" ", 1)
                cur.ctor_params.append({"type": canon(ty), "name": nm, "default": default})
            # body
            if lines[i] != "{":
                raise HarnessError(f"csparse: {fname}: constructor body expected")
            i += 1
            d = 1
            while d:
                b = lines[i]
                i += 1
                if b == "{":
                    d += 1
                elif b == "}":
                    d -= 1
                else:
                    m = ASSIGN_RE.match(b)
                    if m and d == 1:
                        cur.ctor_assign[m.group(1)] = m.group(2)
            continue
        m = PROP_RE.match(ln)
        if m and cur.kind in ("record", "class"):
            ty = m.group("type").strip()
            nullable = ty.endswith("?")
            wire = None
            for a in pending_attrs:
                dm = DATAMEMBER_RE.match(a)
                if dm:
                    wire = dm.group(1)
            cur.props.append({"wire": wire, "type": canon(ty[:-1] if nullable else ty), "nullable": nullable,
                              "name": m.group("name"), "attrs": pending_attrs, "init": m.group("init")})
            pending_attrs = []
            continue
        if PRIVATE_RE.match(ln):
            pending_attrs = []
            continue
        if cur.kind == "class" and (cur.name.endswith("Converter") or cur.derived and "JsonConverter" in cur.derived):
            continue  # hand-templated converter code
        if ln.startswith(f"public {cur.name}(") and ln.endswith("{}"):
            pending_attrs = []
            continue  # type-alias convenience constructors
        if strict is not None and cur.name not in strict:
            pending_attrs = []
            continue  # hand-written special classes: not consumed by the oracle
        if re.search(r"\{\s*get;", ln):
            # a property that does not have the shape of a generated data member (not public, no accessor pair...)
            cur.odd_members.append(ln)
            pending_attrs = []
            continue
        raise HarnessError(f"csparse: {fname}: class {cur.name}: unexpected line {ln!r}")
    return out


Finding = Tuple[str, str, str, str]
ANY = "\u00abany\u00bb"


class CsOracle:
    def __init__(self, doc: dict, files: Dict[str, str], custom_files: Optional[set] = None):
        self.m = Model(doc)
        self.classes: Dict[str, CsClass] = {}
        self.dups: List[str] = []
        self.malformed: List[str] = []
        for fname, text in sorted(files.items()):
            if custom_files and fname in custom_files:
                # hand-written support classes are not read - unless the metamodel itself declares a type of that name
                # (ResponseError is a structure of the base protocol): then the file has to be the generated one
                stem = fname[:-3] if fname.endswith(".cs") else fname
                if stem not in self.m.structs and stem not in self.m.enums:
                    continue
            try:
                for c in parse_file(fname, text, self.strict_names(), self.malformed):
                    if c.name in self.classes:
                        self.dups.append(c.name)
                    self.classes[c.name] = c
            except HarnessError:
                if not any(m.startswith(fname + ":") for m in self.malformed):
                    raise   # the parser's own limit, not a lexical defect it has already pinned down
        self.out: List[Finding] = []
        self.evaluations = 0

    def strict_names(self) -> set:
        if getattr(self, "_strict", None) is None:
            s = {self.cs_name(n) for n in self.m.structs} | set(self.m.enums) | {"LSPMethods"}
            for kind, msg in self.m.messages():
                text = "Request" if kind == "request" else "Notification"
                name = msg.get("typeName") or method_const_name(msg["method"])
                if not name.endswith(text):
                    name += text
                s.add(name)
                if kind == "request":
                    s.add(name[:-7] + "Response")
            self._strict = s
        return self._strict

    def fail(self, sym: str, locus: str, detail: str) -> None:
        self.out.append((sym, locus, "dotnet", detail))

    def cs_name(self, name: str) -> str:
        return "CommandAction" if name == "Command" else name

    def map(self, t: dict) -> str:
        k = t["kind"]
        m = self.m
        if k == "base":
            return {"string": "string", "RegExp": "string", "DocumentUri": "Uri", "URI": "Uri", "decimal": "float",
                    "integer": "int", "uinteger": "long", "boolean": "bool", "null": "object"}[t["name"]]
        if k == "stringLiteral":
            return "string"
        if k == "reference":
            n = t["name"]
            if n in m.enums and m.enums[n].get("supportsCustomValues"):
                vals = [v["value"] for v in m.enums[n]["values"]]
                return "string" if all(isinstance(v, str) for v in vals) else "int"
            return self.cs_name(n)
        if k == "array":
            return f"ImmutableArray<{self.map(t['element'])}>"
        if k == "map":
            v = t["value"]
            if v["kind"] == "or" and len([i for i in v["items"] if not m.is_null(i)]) >= 2:
                vt = ANY
            else:
                vt = self.map(v)
            return f"ImmutableDictionary<{self.map(t['key'])},{vt}>"
        if k == "tuple":
            return "(" + ",".join(self.map(i) for i in t["items"] if not m.is_null(i)) + ")"
        if k == "or":
            items = [i for i in t["items"] if not m.is_null(i)]
            if len(items) == 1:
                return self.map(items[0])
            if all(i["kind"] == "literal" for i in items):
                return ANY  # variant literals may be merged into one generated class
            return "OrType<" + ",".join(self.map(i) for i in items) + ">"
        if k == "literal":
            return "LSPObject" if not t["value"]["properties"] else ANY
        raise HarnessError(f"cs oracle: unmapped kind {k}")

    @staticmethod
    def type_matches(expected: str, got: str) -> bool:
        pat = re.escape(expected).replace(re.escape(ANY), r"[\w<>,()?]+")
        return re.fullmatch(pat, got) is not None

    def check_literals(self, t: dict, got: str, locus: str, depth: int) -> None:
        """anonymous literal types inside a member's type: the C# type written at that position has to name a generated class
        of its own - not a type the metamodel declares - whose data members are the literal's properties (for several
        literal alternatives merged into one class: the union of their properties)."""
        m = self.m
        got = got[:-1] if got.endswith("?") else got
        k = t["kind"]
        if depth > 6:
            return
        if k == "or":
            items = [i for i in t["items"] if not m.is_null(i)]
            if len(items) == 1:
                return self.check_literals(items[0], got, locus, depth + 1)
            if items and all(i["kind"] == "literal" for i in items):
                props: Dict[str, dict] = {}
                for i in items:
                    for q in i["value"]["properties"]:
                        props.setdefault(q["name"], q)
                if props:
                    self.literal_class(got, list(props.values()), locus, depth, merged=True)
                return
            if got.startswith("OrType<") and got.endswith(">"):
                parts = split_params(got[len("OrType<"):-1])
                if len(parts) == len(items):
                    for i, g_ in zip(items, parts):
                        self.check_literals(i, g_, locus, depth + 1)
            return
        if k == "array" and got.startswith("ImmutableArray<") and got.endswith(">"):
            return self.check_literals(t["element"], got[len("ImmutableArray<"):-1], locus + "[]", depth + 1)
        if k == "map" and got.startswith("ImmutableDictionary<") and got.endswith(">"):
            parts = split_params(got[len("ImmutableDictionary<"):-1])
            if len(parts) == 2:
                self.check_literals(t["value"], parts[1], locus + "{}", depth + 1)
            return
        if k == "literal" and t["value"]["properties"]:
            self.literal_class(got, t["value"]["properties"], locus, depth, merged=False)

    def literal_class(self, got: str, props: List[dict], locus: str, depth: int, merged: bool) -> None:
        self.evaluations += 1
        if not re.fullmatch(r"\w+", got):
            return
        if got in self.strict_names():
            self.fail("literal-class", locus, f"the anonymous literal type is written as {got}, a type the metamodel declares")
            return
        cls = self.classes.get(got)
        if cls is None:
            self.fail("literal-class", locus, f"the anonymous literal type is written as {got}, which no generated file declares")
            return
        wires = {p_["wire"]: p_ for p_ in cls.props if p_["wire"] is not None}
        want = {q["name"]: q for q in props}
        self.evaluations += 1
        if set(wires) != set(want):
            self.fail("literal-class", locus, f"class {got} has data members {sorted(wires)}, the literal declares {sorted(want)}")
            return
        for name, q in want.items():
            self.evaluations += 1
            exp_t = self.map(q["type"])
            if not self.type_matches(exp_t, wires[name]["type"]):
                self.fail("member-type", f"{locus}.{name}", f"type {wires[name]['type']}, expected {exp_t}")
            else:
                self.check_literals(q["type"], wires[name]["type"], f"{locus}.{name}", depth + 1)

    def check_struct(self, sname: str, cls: CsClass, props: List[dict]) -> None:
        m = self.m
        by_wire: Dict[str, dict] = {}
        for p in cls.props:
            self.evaluations += 1
            if p["wire"] is None:
                self.fail("no-data-member", f"{sname}.{p['name']}", "public property without [DataMember]")
                continue
            if p["wire"] in by_wire:
                self.fail("duplicate-member", f"{sname}.{p['wire']}", "two data members with one wire name")
            by_wire[p["wire"]] = p
        want = {p["name"]: p for p in props}
        for w in by_wire:
            if w not in want:
                self.fail("extra-member", f"{sname}.{w}", "data member corresponds to no flattened property")
        self.evaluations += 1
        if not cls.has_ctor and want:
            self.fail("no-json-constructor", sname, "record has no [JsonConstructor]")
        ctor_by_name = {c["name"]: c for c in cls.ctor_params}
        for name, p in want.items():
            self.evaluations += 1
            if name not in by_wire:
                self.fail("missing-member", f"{sname}.{name}", f'no [DataMember(Name = "{name}")]')
                continue
            g = by_wire[name]
            nulladm = m.admits_null(p["type"])
            optional = bool(p.get("optional"))
            exp_t = self.map(p["type"])
            self.evaluations += 1
            if not self.type_matches(exp_t, g["type"]):
                self.fail("member-type", f"{sname}.{name}", f"type {g['type']}, expected {exp_t}")
            else:
                self.check_literals(p["type"], g["type"], f"{sname}.{name}", 0)
            value_collection = g["type"].startswith("ImmutableArray<") or g["type"].startswith("ImmutableDictionary<")
            ignore = any("NullValueHandling.Ignore" in a for a in g["attrs"])
            self.evaluations += 2
            if value_collection:
                # ImmutableArray / ImmutableDictionary are C# value types: the plugin expresses absence by a defaulted constructor
                # parameter and declares neither `?` nor NullValueHandling.Ignore. The property's rule is stated for every data
                # member, so it is applied here too - under symptoms of their own (known finding KF-dotnet-optional-collections)
                if not (optional or nulladm) and (g["nullable"] or ignore):
                    self.fail("nullability", f"{sname}.{name}", "required collection marked nullable / null-ignoring")
                if (optional or nulladm) and not g["nullable"]:
                    self.fail("nullability-collection", f"{sname}.{name}", f"collection member is not nullable, optional={optional}, null-admitting={nulladm}")
                if (optional and not nulladm) and not ignore:
                    self.fail("null-ignoring-collection", f"{sname}.{name}", f"optional collection member without NullValueHandling.Ignore (its converter writes null for an absent value)")
            else:
                if g["nullable"] != (optional or nulladm):
                    self.fail("nullability", f"{sname}.{name}", f"nullable={g['nullable']}, optional={optional}, null-admitting={nulladm}")
                if ignore != (optional and not nulladm):
                    self.fail("null-ignoring", f"{sname}.{name}", f"NullValueHandling.Ignore={ignore}, optional={optional}, null-admitting={nulladm}")
            # constructor assignment
            self.evaluations += 1
            param = cls.ctor_assign.get(g["name"])
            if cls.has_ctor:
                if param is None or param not in ctor_by_name:
                    self.fail("not-assigned", f"{sname}.{name}", f"{g['name']} is not assigned from a constructor parameter")
                else:
                    cp = ctor_by_name[param]
                    self.evaluations += 1
                    if p["type"]["kind"] != "stringLiteral" and (cp["default"] is not None) != (optional or nulladm):
                        self.fail("ctor-default", f"{sname}.{name}", f"constructor parameter default {cp['default']!r}, optional-or-null-admitting={optional or nulladm}")

    def run(self) -> List[Finding]:
        m = self.m
        for d in self.dups:
            self.fail("duplicate-class", d, "declared twice")
        for msg in self.malformed:
            self.fail("malformed-source", msg.split(":")[0], msg)
        for c in self.classes.values():
            for ln in c.odd_members:
                self.fail("odd-member", c.name, f"property that is not a generated data member (public, attribute-tagged auto-property): {ln[:100]!r}")
        self.evaluations += 1
        for name in m.structs:
            if name.startswith("_"):
                continue
            self.evaluations += 1
            cname = self.cs_name(name)
            if cname not in self.classes:
                self.fail("missing-class", name, "structure has no record")
                continue
            self.check_struct(name, self.classes[cname], m.flat_props(name))
        for name, e in m.enums.items():
            self.evaluations += 1
            if name not in self.classes or self.classes[name].kind != "enum":
                self.fail("missing-enum", name, "enumeration has no enum")
                continue
            got = [x["value"] for x in self.classes[name].members]
            want = [v["value"] for v in e["values"]]
            self.evaluations += len(want)
            if sorted(map(repr, got)) != sorted(map(repr, want)):
                self.fail("enum-values", name, f"values {got}, expected {want}")
        # message metadata
        lm = self.classes.get("LSPMethods")
        self.evaluations += 1
        if lm is None:
            self.fail("missing-class", "LSPMethods", "no method constants class")
        dirs = {"clientToServer": "ClientToServer", "serverToClient": "ServerToClient", "both": "Both"}
        all_methods = [msg["method"] for _, msg in m.messages()]
        if lm is not None:
            self.evaluations += 1
            extra = sorted(set(lm.statics.values()) - set(all_methods))
            if extra or lm.static_dups:
                self.fail("method-constants", "LSPMethods", f"extra {extra}, duplicated names {lm.static_dups}")
        for kind, msg in m.messages():
            method = msg["method"]
            text = "Request" if kind == "request" else "Notification"
            name = msg.get("typeName") or method_const_name(method)
            if not name.endswith(text):
                name += text
            self.evaluations += 1
            if lm is not None:
                n = sum(1 for v in lm.statics.values() if v == method)
                if n != 1:
                    self.fail("method-constant", method, f"{n} LSPMethods constants equal the method")
            self.evaluations += 1
            cls = self.classes.get(name)
            if cls is None:
                self.fail("missing-class", method, f"no message class {name}")
                continue
            attrs = " ".join(cls.attrs)
            self.evaluations += 1
            dm = re.findall(r"\[Direction\(MessageDirection\.(\w+)\)\]", attrs)
            want_dir = dirs[msg["messageDirection"]]
            if dm != [want_dir]:
                self.fail("direction", method, f"{name}: Direction {dm}, metamodel says {want_dir}")
            if kind == "request":
                # relational: the request class names its response class, which must name it back
                self.evaluations += 2
                mm = re.search(r'\[LSPRequest\("((?:\\.|[^"\\])*)", typeof\((\w+)\)', attrs)
                if not mm or mm.group(1) != method:
                    self.fail("request-metadata", method, f"{name}: attributes {cls.attrs}")
                    continue
                rname = mm.group(2)
                rc = self.classes.get(rname)
                if rc is None:
                    self.fail("missing-class", method, f"no response class {rname}")
                else:
                    ra = " ".join(rc.attrs)
                    mm = re.search(r"\[LSPResponse\(typeof\((\w+)\)\)\]", ra)
                    if not mm or mm.group(1) != name:
                        self.fail("response-metadata", method, f"{rname}: attributes {rc.attrs}; the request class is {name}")
                    if rname == name:
                        self.fail("response-metadata", method, f"request class {name} is paired with itself")
        return self.out
