"""Running the repository's generator from the working tree (sub-process, scratch directories)."""
from __future__ import annotations

import os
import shutil
import subprocess
import sys
import tempfile
from typing import Dict, List, Optional, Sequence, Tuple

from .runner import HarnessError
from .subject import REPO, repo_path

PY = "/venv/bin/python"


def scratch(prefix: str = "lspverif-") -> str:
    return tempfile.mkdtemp(prefix=prefix, dir=os.environ.get("LSPVERIF_TMP", "/tmp"))


def prepare_test_dir(plugin: str, out_dir: str) -> str:
    """the --test-dir of a run. The rust plugin also rewrites a marked region of the test harness when the test directory
    has one: it gets a copy of the repository's (the project's own build runs with tests/rust in place; the checks never
    write there)."""
    test_dir = os.path.join(out_dir, "_tests")
    if plugin == "rust" and not os.path.exists(test_dir):
        harness = os.path.join(REPO, "tests", "rust")
        if os.path.isdir(harness):
            shutil.copytree(harness, test_dir)
    return test_dir


def run_generator(plugin: str, out_dir: str, models: Optional[Sequence[str]] = None, hashseed: int = 0,
                  timeout: int = 600, spelling: str = "default") -> subprocess.CompletedProcess:
    """`python -m generator --plugin <p> --output-dir out --test-dir out/tests [--model ...]`.

    spelling: "default"  - run from REPO with absolute paths;
              "cwd"      - the same command from an unrelated working directory;
              "relative" - from the parent of the output directory, every path given relative to it;
              "minpath"  - as default, with a search path that holds no developer tools;
              "optimised" - as default, under `python -O` (assert statements are not executed);
              "elsewhen" - as default, on another day (clock shifted), as another user on another machine whose file system
                           lists directories in another order."""
    test_dir = prepare_test_dir(plugin, out_dir)
    cwd = REPO
    tmp_cwd = None
    if spelling == "cwd":
        cwd = tmp_cwd = scratch("lspverif-cwd-")
    elif spelling == "relative":
        cwd = os.path.dirname(os.path.abspath(out_dir))
    rel = (lambda p: os.path.relpath(p, cwd)) if spelling == "relative" else (lambda p: p)
    cmd = [PY, "-B"] + (["-O"] if spelling == "optimised" else []) + ["-m", "generator", "--plugin", plugin, "--output-dir", rel(out_dir), "--test-dir", rel(test_dir)]
    if models:
        cmd += ["--model", *[rel(m) for m in models]]
    env = dict(os.environ)
    env["PYTHONHASHSEED"] = str(hashseed)
    env["PYTHONPATH"] = REPO
    env["PYTHONDONTWRITEBYTECODE"] = "1"
    if spelling == "minpath":   # no developer tools (formatters, cargo, dotnet) on the search path
        env["PATH"] = "/usr/bin:/bin"
    site_dir = None
    if spelling == "elsewhen":
        # another day, another user, another machine: the clock of the sub-process is shifted by 400 days through a
        # sitecustomize module, and the identity variables of the environment are different
        site_dir = scratch("lspverif-site-")
        with open(os.path.join(site_dir, "sitecustomize.py"), "w") as f:
            f.write(_CLOCK_SHIFT)
        env["PYTHONPATH"] = site_dir + os.pathsep + REPO
        env.update(USER="someone-else", LOGNAME="someone-else", USERNAME="someone-else", HOME=site_dir, HOSTNAME="build-agent-7", TZ="Pacific/Kiritimati")
    try:
        return subprocess.run(cmd, cwd=cwd, env=env, capture_output=True, text=True, timeout=timeout)
    finally:
        if tmp_cwd:
            shutil.rmtree(tmp_cwd, ignore_errors=True)
        if site_dir:
            shutil.rmtree(site_dir, ignore_errors=True)


_CLOCK_SHIFT = """
import datetime as _dt, time as _t
_D = 400 * 86400
_real_time, _real_localtime, _real_gmtime, _real_strftime = _t.time, _t.localtime, _t.gmtime, _t.strftime
class _Fn:   # a callable that does not turn into a bound method when stored on a class (logging.Formatter.converter)
    def __init__(self, f): self.f = f
    def __call__(self, *a): return self.f(*a)
_t.time = _Fn(lambda: _real_time() + _D)
_t.time_ns = _Fn(lambda: int((_real_time() + _D) * 1e9))
_t.localtime = _Fn(lambda s=None: _real_localtime(_real_time() + _D if s is None else s))
_t.gmtime = _Fn(lambda s=None: _real_gmtime(_real_time() + _D if s is None else s))
_t.strftime = _Fn(lambda fmt, tup=None: _real_strftime(fmt, _t.localtime() if tup is None else tup))
_RealDT, _RealDate = _dt.datetime, _dt.date
class datetime(_RealDT):
    @classmethod
    def now(cls, tz=None):
        return _RealDT.now(tz) + _dt.timedelta(seconds=_D)
    @classmethod
    def utcnow(cls):
        return _RealDT.utcnow() + _dt.timedelta(seconds=_D)
    @classmethod
    def today(cls):
        return _RealDT.today() + _dt.timedelta(seconds=_D)
class date(_RealDate):
    @classmethod
    def today(cls):
        return _RealDate.today() + _dt.timedelta(seconds=_D)
_dt.datetime, _dt.date = datetime, date
# another file system: directory entries come in another order (readdir order is unspecified)
import os as _os
_real_scandir, _real_listdir = _os.scandir, _os.listdir
class _Scan:
    def __init__(self, it): self._it = it; self._entries = iter(sorted(list(it), key=lambda e: e.name, reverse=True))
    def __iter__(self): return self
    def __next__(self): return next(self._entries)
    def __enter__(self): return self
    def __exit__(self, *a): self.close()
    def close(self): self._it.close()
_os.scandir = _Fn(lambda path=".": _Scan(_real_scandir(path)))
_os.listdir = _Fn(lambda path=".": sorted(_real_listdir(path), reverse=True))
"""


def rustfmt(path: str) -> None:
    exe = shutil.which("rustfmt") or "/root/.cargo/bin/rustfmt"
    r = subprocess.run([exe, "--edition", "2021", path], capture_output=True, text=True)
    if r.returncode != 0:
        raise HarnessError(f"rustfmt failed on {path}: {r.stderr[:500]}")


def rustfmt_ok(path: str) -> Tuple[bool, str]:
    exe = shutil.which("rustfmt") or "/root/.cargo/bin/rustfmt"
    r = subprocess.run([exe, "--edition", "2021", path], capture_output=True, text=True)
    return r.returncode == 0, r.stderr
