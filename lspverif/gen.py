"""Running the repository's generator from the working tree (sub-process, scratch directories)."""
from __future__ import annotations

import os
import shutil
import subprocess
import sys
import tempfile
from typing import Dict, List, Optional, Sequence, Tuple

from .runner import HarnessError
from .subject import REPO, repo_path

PY = "/venv/bin/python"


def scratch(prefix: str = "lspverif-") -> str:
    return tempfile.mkdtemp(prefix=prefix, dir=os.environ.get("LSPVERIF_TMP", "/tmp"))


def run_generator(plugin: str, out_dir: str, models: Optional[Sequence[str]] = None, hashseed: int = 0,
                  timeout: int = 600, spelling: str = "default") -> subprocess.CompletedProcess:
    """`python -m generator --plugin <p> --output-dir out --test-dir out/tests [--model ...]`.

    spelling: "default"  - run from REPO with absolute paths;
              "cwd"      - the same command from an unrelated working directory;
              "relative" - from the parent of the output directory, every path given relative to it;
              "minpath"  - as default, with a search path that holds no developer tools."""
    test_dir = os.path.join(out_dir, "_tests")
    cwd = REPO
    tmp_cwd = None
    if spelling == "cwd":
        cwd = tmp_cwd = scratch("lspverif-cwd-")
    elif spelling == "relative":
        cwd = os.path.dirname(os.path.abspath(out_dir))
    rel = (lambda p: os.path.relpath(p, cwd)) if spelling == "relative" else (lambda p: p)
    cmd = [PY, "-B", "-m", "generator", "--plugin", plugin, "--output-dir", rel(out_dir), "--test-dir", rel(test_dir)]
    if models:
        cmd += ["--model", *[rel(m) for m in models]]
    env = dict(os.environ)
    env["PYTHONHASHSEED"] = str(hashseed)
    env["PYTHONPATH"] = REPO
    env["PYTHONDONTWRITEBYTECODE"] = "1"
    if spelling == "minpath":   # no developer tools (formatters, cargo, dotnet) on the search path
        env["PATH"] = "/usr/bin:/bin"
    try:
        return subprocess.run(cmd, cwd=cwd, env=env, capture_output=True, text=True, timeout=timeout)
    finally:
        if tmp_cwd:
            shutil.rmtree(tmp_cwd, ignore_errors=True)


def rustfmt(path: str) -> None:
    exe = shutil.which("rustfmt") or "/root/.cargo/bin/rustfmt"
    r = subprocess.run([exe, "--edition", "2021", path], capture_output=True, text=True)
    if r.returncode != 0:
        raise HarnessError(f"rustfmt failed on {path}: {r.stderr[:500]}")


def rustfmt_ok(path: str) -> Tuple[bool, str]:
    exe = shutil.which("rustfmt") or "/root/.cargo/bin/rustfmt"
    r = subprocess.run([exe, "--edition", "2021", path], capture_output=True, text=True)
    return r.returncode == 0, r.stderr
