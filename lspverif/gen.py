"""Running the repository's generator from the working tree (sub-process, scratch directories)."""
from __future__ import annotations

import os
import shutil
import subprocess
import sys
import tempfile
from typing import Dict, List, Optional, Sequence, Tuple

from .runner import HarnessError
from .subject import REPO, repo_path

PY = "/venv/bin/python"


def scratch(prefix: str = "lspverif-") -> str:
    return tempfile.mkdtemp(prefix=prefix, dir=os.environ.get("LSPVERIF_TMP", "/tmp"))


def run_generator(plugin: str, out_dir: str, models: Optional[Sequence[str]] = None, hashseed: int = 0,
                  timeout: int = 600) -> subprocess.CompletedProcess:
    """`python -m generator --plugin <p> --output-dir out --test-dir out/tests [--model ...]` from REPO."""
    test_dir = os.path.join(out_dir, "_tests")
    cmd = [PY, "-B", "-m", "generator", "--plugin", plugin, "--output-dir", out_dir, "--test-dir", test_dir]
    if models:
        cmd += ["--model", *models]
    env = dict(os.environ)
    env["PYTHONHASHSEED"] = str(hashseed)
    env["PYTHONPATH"] = REPO
    env["PYTHONDONTWRITEBYTECODE"] = "1"
    return subprocess.run(cmd, cwd=REPO, env=env, capture_output=True, text=True, timeout=timeout)


def rustfmt(path: str) -> None:
    exe = shutil.which("rustfmt") or "/root/.cargo/bin/rustfmt"
    r = subprocess.run([exe, "--edition", "2021", path], capture_output=True, text=True)
    if r.returncode != 0:
        raise HarnessError(f"rustfmt failed on {path}: {r.stderr[:500]}")


def rustfmt_ok(path: str) -> Tuple[bool, str]:
    exe = shutil.which("rustfmt") or "/root/.cargo/bin/rustfmt"
    r = subprocess.run([exe, "--edition", "2021", path], capture_output=True, text=True)
    return r.returncode == 0, r.stderr
