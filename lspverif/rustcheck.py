"""Text analyser for the generated Rust crate and the C07 oracle (DESIGN 2.5, 3/C07).

Input: rustfmt-normalised lib.rs text + the metamodel document it was generated from.
Fails closed: text the parser does not understand raises HarnessError.
"""
from __future__ import annotations

import re
from typing import Any, Dict, List, Optional, Tuple

from .refmodel import Model
from .runner import HarnessError

TOKEN_RE = re.compile(
    r"""\s+|//[^\n]*|/\*.*?\*/|"(?:\\.|[^"\\])*"|'[a-z_]+\b|-?\d+|[A-Za-z_][A-Za-z0-9_]*|::|=>|->|[#\[\](){}<>,;:=&!?.*+|-]""",
    re.S,
)


def tokenize(text: str) -> List[str]:
    out: List[str] = []
    pos = 0
    while pos < len(text):
        m = TOKEN_RE.match(text, pos)
        if not m:
            raise HarnessError(f"rsparse: cannot tokenize at {text[pos:pos + 40]!r}")
        tok = m.group(0)
        pos = m.end()
        if tok.isspace() or tok.startswith("//") or tok.startswith("/*"):
            continue
        out.append(tok)
    return out


class Item:
    def __init__(self, kind: str, name: str):
        self.kind = kind
        self.name = name
        self.attrs: List[str] = []       # flattened attribute texts, e.g. 'serde(untagged)'
        self.fields: List[dict] = []     # struct: {name, type, attrs}
        self.variants: List[dict] = []   # enum: {name, types, value, attrs}
        self.alias: Optional[str] = None  # type alias target (canonical)
        self.body: List[str] = []        # impl: raw tokens
        self.generics: List[str] = []
        self.public = False


class Parser:
    def __init__(self, text: str):
        self.t = tokenize(text)
        self.i = 0

    def peek(self, k: int = 0) -> Optional[str]:
        return self.t[self.i + k] if self.i + k < len(self.t) else None

    def next(self) -> str:
        tok = self.t[self.i]
        self.i += 1
        return tok

    def expect(self, tok: str) -> None:
        got = self.next()
        if got != tok:
            ctx = " ".join(self.t[max(0, self.i - 8): self.i + 4])
            raise HarnessError(f"rsparse: expected {tok!r}, got {got!r} near: {ctx}")

    def attr(self) -> str:
        self.expect("#")
        if self.peek() == "!":
            self.next()
        self.expect("[")
        depth = 1
        parts: List[str] = []
        while depth:
            tok = self.next()
            if tok in "[(":
                depth += 1
            elif tok in "])":
                depth -= 1
                if depth == 0:
                    break
            parts.append(tok)
        return "".join(p if p not in (",",) else ", " for p in parts)

    def attrs(self) -> List[str]:
        out = []
        while self.peek() == "#":
            out.append(self.attr())
        return out

    def type_(self) -> str:
        tok = self.next()
        if tok == "(":
            parts = []
            while self.peek() != ")":
                parts.append(self.type_())
                if self.peek() == ",":
                    self.next()
            self.expect(")")
            return "(" + ",".join(parts) + ")"
        if tok == "&":
            return "&" + self.type_()
        if not re.match(r"[A-Za-z_]", tok):
            raise HarnessError(f"rsparse: unexpected token {tok!r} in type")
        name = tok
        while self.peek() == "::":
            self.next()
            name += "::" + self.next()
        if self.peek() == "<":
            self.next()
            args = []
            while self.peek() != ">":
                args.append(self.type_())
                if self.peek() == ",":
                    self.next()
            self.expect(">")
            name += "<" + ",".join(args) + ">"
        return name

    def generics(self) -> List[str]:
        out = []
        if self.peek() == "<":
            self.next()
            while self.peek() != ">":
                out.append(self.next())
                if self.peek() == ",":
                    self.next()
            self.expect(">")
        return out

    def skip_block(self) -> List[str]:
        self.expect("{")
        depth = 1
        toks = []
        while depth:
            tok = self.next()
            if tok == "{":
                depth += 1
            elif tok == "}":
                depth -= 1
                if depth == 0:
                    break
            toks.append(tok)
        return toks

    def items(self) -> List[Item]:
        out: List[Item] = []
        while self.peek() is not None:
            attrs = self.attrs()
            public = False
            if self.peek() == "pub":
                self.next()
                public = True
            kw = self.next()
            if kw == "use":
                while self.next() != ";":
                    pass
                continue
            if kw == "struct":
                it = Item("struct", self.next())
                it.generics = self.generics()
                self.expect("{")
                while self.peek() != "}":
                    fattrs = self.attrs()
                    if self.peek() == "pub":
                        self.next()
                    fname = self.next()
                    self.expect(":")
                    ftype = self.type_()
                    if self.peek() == ",":
                        self.next()
                    it.fields.append({"name": fname, "type": ftype, "attrs": fattrs})
                self.expect("}")
            elif kw == "enum":
                it = Item("enum", self.next())
                it.generics = self.generics()
                self.expect("{")
                while self.peek() != "}":
                    vattrs = self.attrs()
                    vname = self.next()
                    types: List[str] = []
                    value = None
                    if self.peek() == "(":
                        self.next()
                        while self.peek() != ")":
                            types.append(self.type_())
                            if self.peek() == ",":
                                self.next()
                        self.expect(")")
                    if self.peek() == "=":
                        self.next()
                        value = int(self.next())
                    if self.peek() == ",":
                        self.next()
                    it.variants.append({"name": vname, "types": types, "value": value, "attrs": vattrs})
                self.expect("}")
            elif kw == "type":
                it = Item("type", self.next())
                self.expect("=")
                it.alias = self.type_()
                self.expect(";")
            elif kw == "impl":
                gen = self.generics()
                head = []
                while self.peek() != "{":
                    head.append(self.next())
                it = Item("impl", " ".join(head))
                it.body = self.skip_block()
            else:
                ctx = " ".join(self.t[max(0, self.i - 6): self.i + 6])
                raise HarnessError(f"rsparse: unknown item keyword {kw!r} near: {ctx}")
            it.attrs = attrs
            it.public = public
            out.append(it)
        return out


def serde_camel(ident: str) -> str:
    """serde's RenameRule::CamelCase applied to a field identifier."""
    pascal = ""
    cap = True
    for ch in ident:
        if ch == "_":
            cap = True
        elif cap:
            pascal += ch.upper()
            cap = False
        else:
            pascal += ch
    return pascal[:1].lower() + pascal[1:]


def attr_rename(attrs: List[str]) -> Optional[str]:
    for a in attrs:
        m = re.search(r'rename\s*=\s*"((?:\\.|[^"\\])*)"', a)
        if a.startswith("serde(") and m:
            return m.group(1)
    return None


def has_gate(attrs: List[str]) -> bool:
    return any(re.fullmatch(r'cfg\(feature\s*=\s*"proposed"\)', a.replace(" ", "").replace("=", " = ").replace("  ", " ")) or
               a.replace(" ", "") == 'cfg(feature="proposed")' for a in attrs)


PRELUDE = {"CustomStringEnum", "CustomIntEnum", "OR2", "OR3", "OR4", "OR5", "OR6", "OR7", "LSPNull",
           "LSPRequestMethods", "LSPNotificationMethods", "MessageDirection", "LSPId", "LSPIdOptional"}

Finding = Tuple[str, str, str, str]


class RustOracle:
    def __init__(self, doc: dict, text: str):
        self.m = Model(doc)
        self.items = Parser(text).items()
        self.structs = {}
        self.enums = {}
        self.types = {}
        self.impls: List[Item] = []
        self.dups: List[str] = []
        for it in self.items:
            table = {"struct": self.structs, "enum": self.enums, "type": self.types}.get(it.kind)
            if table is None:
                self.impls.append(it)
                continue
            if it.name in table:
                self.dups.append(it.name)
            table[it.name] = it
        self.out: List[Finding] = []
        self.evaluations = 0
        self.used_literal_structs: set = set()

    def fail(self, sym: str, locus: str, detail: str) -> None:
        self.out.append((sym, locus, "rust", detail))

    # -- independent type mapping ---------------------------------------------------
    def base(self, n: str) -> str:
        return {"string": "String", "RegExp": "String", "DocumentUri": "Url", "URI": "Url", "decimal": "Decimal",
                "integer": "i32", "uinteger": "u32", "boolean": "bool"}[n]

    def map(self, t: dict, got: Optional[str], locus: str, top: bool = False) -> str:
        """Expected canonical Rust type for metamodel type t.  `got` (the emitted type at this position,
        Option stripped) is only consulted to resolve the plugin-chosen names of literal structs."""
        k = t["kind"]
        if k == "base":
            return self.base(t["name"])
        if k == "stringLiteral":
            return "String"
        if k == "reference":
            n = t["name"]
            if n in self.m.enums and self.m.enums[n].get("supportsCustomValues"):
                vals = [v["value"] for v in self.m.enums[n]["values"]]
                if all(isinstance(v, str) for v in vals):
                    return f"CustomStringEnum<{n}>"
                return f"CustomIntEnum<{n}>"
            return n
        if k == "array":
            inner_got = self._generic_arg(got, "Vec", 0)
            return f"Vec<{self.map(t['element'], inner_got, locus + '|[]')}>"
        if k == "map":
            return f"HashMap<{self.map(t['key'], self._generic_arg(got, 'HashMap', 0), locus)},{self.map(t['value'], self._generic_arg(got, 'HashMap', 1), locus + '|{}')}>"
        if k == "tuple":
            items = [it for it in t["items"] if not self.m.is_null(it)]
            gots = self._tuple_args(got, len(items))
            subs = [self.map(it, g, f"{locus}|{i}") for i, (it, g) in enumerate(zip(items, gots))]
            return "(" + ",".join(subs) + ")" if len(subs) >= 2 else subs[0]
        if k == "or":
            items = [it for it in t["items"] if not self.m.is_null(it)]
            nullable = len(items) != len(t["items"]) and not top
            if nullable:
                # a null-admitting union below the property level (array element, map value...) is an Option
                _, got = self.strip_option(got) if got else (False, got)
            if len(items) == 1:
                inner = self.map(items[0], got, locus)
            else:
                gots = [self._generic_arg(got, f"OR{len(items)}", i) for i in range(len(items))]
                inner = f"OR{len(items)}<" + ",".join(self.map(it, g, f"{locus}|{i}") for i, (it, g) in enumerate(zip(items, gots))) + ">"
            return f"Option<{inner}>" if nullable else inner
        if k == "literal":
            props = t["value"]["properties"]
            if not props:
                return "LSPObject"
            if got and got in self.structs and self.literal_matches(self.structs[got], props, locus):
                self.used_literal_structs.add(got)
                # the struct of a literal is held to what holds for the struct of a structure: field types, Option, gates
                done = self.__dict__.setdefault("_checked_literal_structs", set())
                if got not in done:
                    done.add(got)
                    self.check_fields(got, self.structs[got], props, locus + "|")
                    self.evaluations += 1
                    if has_gate(self.structs[got].attrs) != bool(t["value"].get("proposed")):
                        self.fail("feature-gate", got, f"literal struct gated={has_gate(self.structs[got].attrs)}, proposed={bool(t['value'].get('proposed'))}")
                return got
            return f"<struct for literal at {locus}>"
        raise HarnessError(f"rust oracle: unmapped type kind {k}")

    @staticmethod
    def split_args(s: str) -> List[str]:
        out, depth, cur = [], 0, ""
        for ch in s:
            if ch in "<(":
                depth += 1
            elif ch in ">)":
                depth -= 1
            if ch == "," and depth == 0:
                out.append(cur)
                cur = ""
            else:
                cur += ch
        if cur:
            out.append(cur)
        return out

    def _generic_arg(self, got: Optional[str], head: str, idx: int) -> Optional[str]:
        if not got or not got.startswith(head + "<") or not got.endswith(">"):
            return None
        args = self.split_args(got[len(head) + 1:-1])
        return args[idx] if idx < len(args) else None

    def _tuple_args(self, got: Optional[str], n: int) -> List[Optional[str]]:
        if got and got.startswith("(") and got.endswith(")"):
            args = self.split_args(got[1:-1])
            if len(args) == n:
                return list(args)
        return [None] * n

    def strip_option(self, ty: str) -> Tuple[bool, str]:
        if ty.startswith("Option<") and ty.endswith(">"):
            return True, ty[len("Option<"):-1]
        return False, ty

    def literal_matches(self, st: Item, props: List[dict], locus: str) -> bool:
        names = {attr_rename(f["attrs"]) or serde_camel(f["name"]) for f in st.fields}
        return names == {p["name"] for p in props}

    # -- checks -----------------------------------------------------------------------
    def check_fields(self, sname: str, st: Item, props: List[dict], locus_prefix: str) -> None:
        self.evaluations += 1
        ra = [a for a in st.attrs if a.startswith("serde(")]
        camel = any("rename_all" in a and '"camelCase"' in a for a in ra)
        by_wire: Dict[str, dict] = {}
        for f in st.fields:
            # serde name: explicit rename, else the struct's rename rule (identity when it has none)
            wire = attr_rename(f["attrs"]) or (serde_camel(f["name"]) if camel else f["name"])
            if wire in by_wire:
                self.fail("duplicate-field", f"{sname}.{wire}", "two fields serialise under one name")
            by_wire[wire] = f
        want = {p["name"]: p for p in props}
        self.evaluations += 1
        for w in by_wire:
            if w not in want:
                self.fail("extra-field", f"{sname}.{w}", "field corresponds to no flattened property")
        for name, p in want.items():
            self.evaluations += 1
            if name not in by_wire:
                self.fail("missing-field", f"{sname}.{name}", f"no field serialises as {name!r}")
                continue
            f = by_wire[name]
            is_opt, inner = self.strip_option(f["type"])
            boxed = False
            if sname == "SelectionRange" and "Box<SelectionRange>" in inner:
                # a Box is transparent on the wire (serde writes Box<T> as T); the self-reference needs one
                inner, boxed = re.sub(r"\bBox<SelectionRange>", "SelectionRange", inner), True
            exp_opt = bool(p.get("optional")) or self.m.admits_null(p["type"]) or (
                p["type"]["kind"] == "tuple" and any(self.m.is_null(i) for i in p["type"]["items"]))
            self.evaluations += 1
            if is_opt != exp_opt:
                self.fail("option-wrap", f"{sname}.{name}", f"type {f['type']}, Option expected: {exp_opt}")
            exp = self.map(p["type"], inner, f"{locus_prefix}.{name}", top=True)
            self.evaluations += 1
            if exp != inner:
                self.fail("field-type", f"{sname}.{name}", f"type {inner}, expected {exp}")
            self.evaluations += 1
            if has_gate(f["attrs"]) != bool(p.get("proposed")):
                self.fail("feature-gate", f"{sname}.{name}", f"gated={has_gate(f['attrs'])}, proposed={bool(p.get('proposed'))}")

    def run(self) -> List[Finding]:
        m = self.m
        for d in self.dups:
            self.fail("duplicate-item", d, "declared twice")
        # structures
        for name, s in m.structs.items():
            self.evaluations += 1
            if name not in self.structs:
                if name == "LSPObject" or (name in self.types):
                    continue
                self.fail("missing-struct", name, "structure has no struct")
                continue
            st = self.structs[name]
            self.check_fields(name, st, m.flat_props(name), f"struct:{name}")
            self.evaluations += 1
            if has_gate(st.attrs) != bool(s.get("proposed")):
                self.fail("feature-gate", name, f"gated={has_gate(st.attrs)}, proposed={bool(s.get('proposed'))}")
        # enumerations
        for name, e in m.enums.items():
            self.evaluations += 1
            if name not in self.enums:
                self.fail("missing-enum", name, "enumeration has no enum")
                continue
            en = self.enums[name]
            vals = [v["value"] for v in e["values"]]
            is_int = all(isinstance(v, int) and not isinstance(v, bool) for v in vals)
            got_vals = []
            for v in en.variants:
                got_vals.append(v["value"] if is_int else attr_rename(v["attrs"]))
            self.evaluations += len(vals)
            if sorted(map(repr, got_vals)) != sorted(map(repr, vals)):
                self.fail("enum-values", name, f"discriminants {got_vals}, expected {vals}")
            if len(en.variants) == len(e["values"]):
                for v, ev in zip(en.variants, e["values"]):
                    self.evaluations += 1
                    if has_gate(v["attrs"]) != bool(ev.get("proposed")):
                        self.fail("feature-gate", f"{name}::{v['name']}", f"gated={has_gate(v['attrs'])}, proposed={bool(ev.get('proposed'))}")
            self.evaluations += 1
            if has_gate(en.attrs) != bool(e.get("proposed")):
                self.fail("feature-gate", name, f"gated={has_gate(en.attrs)}")
            if is_int:
                ser = [i for i in self.impls if i.name == f"Serialize for {name}"]
                de = [i for i in self.impls if i.name.endswith(f"Deserialize<'de> for {name}") or i.name == f"Deserialize < 'de > for {name}"]
                self.evaluations += 2
                if len(ser) != 1 or len(de) != 1:
                    self.fail("enum-impls", name, f"{len(ser)} Serialize / {len(de)} Deserialize impls")
                    continue
                # the hand-written impls exist exactly when the enum does, their arms exactly when the variant does
                for impl_ in (ser[0], de[0]):
                    self.evaluations += 1
                    if has_gate(impl_.attrs) != bool(e.get("proposed")):
                        self.fail("feature-gate", f"impl {impl_.name}", f"gated={has_gate(impl_.attrs)}, enum proposed={bool(e.get('proposed'))}")
                gated_variants = {v["name"] for v in en.variants if has_gate(v["attrs"])}
                GATE = r'# \[ cfg \( feature = "proposed" \) \] '
                for impl_, arm_re in ((ser[0], rf"((?:{GATE})?){name} :: (\w+) => serializer"), (de[0], rf"((?:{GATE})?)-?\d+ => Ok \( {name} :: (\w+) \)")):
                    for gate_, vn in re.findall(arm_re, " ".join(impl_.body)):
                        self.evaluations += 1
                        if bool(gate_) != (vn in gated_variants):
                            self.fail("feature-gate", f"impl {impl_.name}: arm {vn}", f"arm gated={bool(gate_)}, variant gated={vn in gated_variants}")
                vname = {v["name"]: v["value"] for v in en.variants}
                sbody = " ".join(ser[0].body)
                arms = re.findall(rf"{name} :: (\w+) => serializer \. serialize_i32 \( (-?\d+) \)", sbody)
                if sorted((a, int(b)) for a, b in arms) != sorted(vname.items()):
                    self.fail("enum-serialize", name, f"arms {arms} vs variants {vname}")
                dbody = " ".join(de[0].body)
                arms = re.findall(rf"(-?\d+) => Ok \( {name} :: (\w+) \)", dbody)
                if sorted((b, int(a)) for a, b in arms) != sorted(vname.items()):
                    self.fail("enum-deserialize", name, f"arms {arms} vs variants {vname}")
        # aliases
        for name, a in m.aliases.items():
            self.evaluations += 1
            t = a["type"]
            if name in ("LSPAny", "LSPObject", "LSPArray"):
                if name not in self.enums and name not in self.types:
                    self.fail("missing-alias", name, "no definition")
                continue
            if t["kind"] == "or":
                if name not in self.enums:
                    self.fail("missing-alias", name, "`or` alias has no enum")
                    continue
                en = self.enums[name]
                self.evaluations += 2
                if not any(x.replace(" ", "") == "serde(untagged)" for x in en.attrs):
                    self.fail("not-untagged", name, f"attributes {en.attrs}")
                if len(en.variants) != len(t["items"]):
                    self.fail("variant-count", name, f"{len(en.variants)} variants for {len(t['items'])} alternatives")
                else:
                    # one variant per alternative: match payload types as multisets
                    exp = []
                    for i, it in enumerate(t["items"]):
                        if m.is_null(it):
                            exp.append("")
                        else:
                            cand = [v["types"][0] for v in en.variants if len(v["types"]) == 1]
                            g = None
                            if it["kind"] == "literal":
                                for c in cand:
                                    if c in self.structs and self.literal_matches(self.structs[c], it["value"]["properties"], name):
                                        g = c
                            exp.append(self.map(it, g, f"alias:{name}|{i}"))
                    got = [v["types"][0] if v["types"] else "" for v in en.variants]
                    self.evaluations += 1
                    if sorted(got) != sorted(exp):
                        self.fail("variant-types", name, f"variants {got}, expected {exp}")
                self.evaluations += 1
                if has_gate(en.attrs) != bool(a.get("proposed")):
                    self.fail("feature-gate", name, f"gated={has_gate(en.attrs)}")
            else:
                if name not in self.types:
                    self.fail("missing-alias", name, "alias has no `type` item")
                    continue
                ty = self.types[name]
                exp = self.map(t, ty.alias, f"alias:{name}")
                self.evaluations += 2
                if ty.alias != exp:
                    self.fail("alias-type", name, f"{ty.alias}, expected {exp}")
                if has_gate(ty.attrs) != bool(a.get("proposed")):
                    self.fail("feature-gate", name, f"gated={has_gate(ty.attrs)}")
        # messages
        for enum_name, msgs in (("LSPRequestMethods", m.requests), ("LSPNotificationMethods", m.notifications)):
            self.evaluations += 1
            if enum_name not in self.enums:
                self.fail("missing-method-enum", enum_name, "")
                continue
            renames = [attr_rename(v["attrs"]) for v in self.enums[enum_name].variants]
            want = [x["method"] for x in msgs]
            self.evaluations += len(want)
            if sorted(map(str, renames)) != sorted(want):
                self.fail("method-enum", enum_name, f"missing {sorted(set(want) - set(map(str, renames)))}, extra {sorted(set(map(str, renames)) - set(want))}")
        message_structs = set()
        for kind, msg in m.messages():
            req, resp = m.message_class_names(kind, msg)
            sname = msg.get("typeName") or req
            self.evaluations += 1
            cand = [n for n in (sname, req) if n in self.structs]
            if not cand:
                self.fail("missing-message-struct", msg["method"], f"no struct {sname}")
                continue
            st = self.structs[cand[0]]
            message_structs.add(cand[0])
            fields = {attr_rename(f["attrs"]) or serde_camel(f["name"]): f for f in st.fields}
            self.evaluations += 2
            want_fields = {"jsonrpc", "method", "params"} | ({"id"} if kind == "request" else set())
            if set(fields) != want_fields:
                self.fail("message-fields", cand[0], f"fields {sorted(fields)}, expected {sorted(want_fields)}")
            else:
                menum = "LSPRequestMethods" if kind == "request" else "LSPNotificationMethods"
                if fields["method"]["type"] != menum:
                    self.fail("message-fields", cand[0], f"method: {fields['method']['type']}")
                p = msg.get("params")
                if p and p["kind"] == "reference" and p["name"] in m.structs and m.flat_props(p["name"]):
                    if fields["params"]["type"] != p["name"]:
                        self.fail("message-params", cand[0], f"params: {fields['params']['type']}, expected {p['name']}")
            self.evaluations += 1
            if has_gate(st.attrs) != bool(msg.get("proposed")):
                self.fail("feature-gate", cand[0], f"gated={has_gate(st.attrs)}, proposed={bool(msg.get('proposed'))}")
            if kind == "request":
                self.evaluations += 1
                rname = (sname[:-7] if sname.endswith("Request") else sname) + "Response"
                if rname not in self.structs:
                    self.fail("missing-message-struct", msg["method"], f"no response struct {rname}")
                else:
                    message_structs.add(rname)
                    self.evaluations += 1
                    if has_gate(self.structs[rname].attrs) != bool(msg.get("proposed")):
                        # the response of a proposed request is a proposed item (it names proposed types)
                        self.fail("feature-gate", rname, f"gated={has_gate(self.structs[rname].attrs)}, request proposed={bool(msg.get('proposed'))}")
                    rf = {attr_rename(f["attrs"]) or serde_camel(f["name"]): f for f in self.structs[rname].fields}
                    self.evaluations += 1
                    if "id" not in rf or "jsonrpc" not in rf:
                        self.fail("message-fields", rname, f"fields {sorted(rf)}")
                    rt = msg.get("result")
                    if rt is not None:
                        self.evaluations += 1
                        if "result" not in rf:
                            self.fail("message-fields", rname, "no result field")
                        else:
                            is_opt, inner = self.strip_option(rf["result"]["type"])
                            exp = "LSPNull" if m.is_null(rt) else self.map(rt, inner, f"request:{msg['method']}:result", top=True)
                            if inner != exp:
                                self.fail("result-type", rname, f"{inner}, expected {exp}")
                            exp_opt = m.admits_null(rt)
                            if is_opt != exp_opt:
                                self.fail("option-wrap", f"{rname}.result", f"{rf['result']['type']}, Option expected: {exp_opt}")
        # reverse direction
        known = set(m.structs) | set(m.enums) | set(m.aliases) | PRELUDE | message_structs | self.used_literal_structs
        literal_props = []
        for locus, t in [(l, t) for l, t in self._all_types()]:
            if t["kind"] == "literal" and t["value"]["properties"]:
                literal_props.append(t["value"]["properties"])
        for table in (self.structs, self.enums, self.types):
            for name, it in table.items():
                self.evaluations += 1
                if name in known:
                    continue
                if it.kind == "struct" and any(self.literal_matches(it, props, name) for props in literal_props):
                    continue
                self.fail("extra-item", name, f"{it.kind} corresponds to nothing in the metamodel")
        return self.out

    def _all_types(self):
        for locus, t in self.m.iter_type_roots():
            yield from self.m.iter_subtypes(locus, t)
