"""Evolved subjects: run the repository's plugins in-process on an evolved metamodel (C06)."""
from __future__ import annotations

import copy
import importlib
import itertools
import logging
import os
import shutil
import sys
from typing import Any, Dict, Optional, Tuple

from . import gen
from .subject import REPO, Subject, repo_path, setup_sys_path

_COUNTER = itertools.count()
RUNTIME_FILES = ["__init__.py", "_hooks.py", "converters.py", "validators.py", "py.typed"]


def load_model(doc):
    """doc: one metamodel document, or a list of them (several model files, merged by the generator)."""
    setup_sys_path()
    from generator import model
    docs = doc if isinstance(doc, list) else [doc]
    return model.create_lsp_model([copy.deepcopy(x) for x in docs])


def run_plugin_inprocess(plugin: str, doc, out_dir: str) -> None:
    """exactly what generator.__main__ does after validation: fresh model, plugin.generate(spec, out, test)."""
    setup_sys_path()
    spec = load_model(doc)
    mod = importlib.import_module(f"generator.plugins.{plugin}")
    logging.disable(logging.CRITICAL)
    try:
        os.makedirs(out_dir, exist_ok=True)
        mod.generate(spec, out_dir, gen.prepare_test_dir(plugin, out_dir))
    finally:
        logging.disable(logging.NOTSET)


class EvolvedPython:
    """context manager: generates the python package for doc into a scratch dir and imports it."""

    def __init__(self, doc: dict):
        self.doc = doc
        self.dir = gen.scratch("lspverif-evo-")
        self.pkg = f"lspevo_{os.getpid()}_{next(_COUNTER)}"
        self.subject: Optional[Subject] = None

    def __enter__(self) -> "EvolvedPython":
        out = os.path.join(self.dir, "out")
        run_plugin_inprocess("python", self.doc, out)
        src_pkg = os.path.join(out, "lsprotocol")
        dst = os.path.join(self.dir, self.pkg)
        os.makedirs(dst)
        shutil.copy(os.path.join(src_pkg, "types.py"), os.path.join(dst, "types.py"))
        for f in RUNTIME_FILES:
            shutil.copy(repo_path("packages", "python", "lsprotocol", f), os.path.join(dst, f))
        sys.path.insert(0, self.dir)
        importlib.invalidate_caches()
        self.subject = Subject(self.doc, package=self.pkg)
        return self

    def __exit__(self, *exc) -> None:
        for name in list(sys.modules):
            if name == self.pkg or name.startswith(self.pkg + "."):
                del sys.modules[name]
        if self.dir in sys.path:
            sys.path.remove(self.dir)
        shutil.rmtree(self.dir, ignore_errors=True)
