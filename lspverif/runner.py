"""Runner: tiers, seeds, sharding, evidence, replays, known findings (DESIGN 2.6/2.7)."""
from __future__ import annotations

import argparse
import fnmatch
import hashlib
import importlib
import json
import multiprocessing as mp
import os
import sys
import time
import traceback
from typing import Any, Callable, Dict, Iterable, List, Optional, Sequence, Tuple

VERIF = os.path.dirname(os.path.dirname(os.path.abspath(__file__)))
NPROC = int(os.environ.get("LSPVERIF_PROCS", "16"))


class HarnessError(Exception):
    """The machinery could not do its job; never a verdict about the repository."""


def derive_seed(*parts: Any) -> int:
    h = hashlib.sha256("|".join(str(p) for p in parts).encode()).digest()
    return int.from_bytes(h[:8], "big")


Sig = Tuple[str, str, str]  # (symptom, locus, ctx)


class KnownFindings:
    def __init__(self, prop: str):
        path = os.path.join(VERIF, "known_findings.json")
        self.entries: List[dict] = []
        self.fixed: List[str] = []
        if os.path.exists(path) and not os.environ.get("LSPVERIF_NO_KNOWN"):
            with open(path) as f:
                doc = json.load(f)
            self.entries = [
                e for e in doc.get("findings", [])
                if prop == e["property"] or (isinstance(e["property"], list) and prop in e["property"])
            ]
            self.fixed = [x for x in doc.get("fixed", []) if f"property={prop} " in x]
        self.hits: Dict[str, int] = {e["id"]: 0 for e in self.entries}

    def match(self, sig: Sig) -> Optional[dict]:
        for e in self.entries:
            for pat in e["patterns"]:
                if (
                    fnmatch.fnmatchcase(sig[0], pat.get("symptom", "*"))
                    and fnmatch.fnmatchcase(sig[1], pat.get("locus", "*"))
                    and fnmatch.fnmatchcase(sig[2], pat.get("ctx", "*"))
                ):
                    return e
        return None


class Ctx:
    def __init__(self, prop: str, tier: str, seed: int):
        self.prop, self.tier, self.seed = prop, tier, seed
        self.t0 = time.time()
        self.known = KnownFindings(prop)
        self.violations: Dict[Sig, dict] = {}
        self.known_hits: Dict[str, int] = {}
        self.known_examples: Dict[str, Any] = {}
        self.level = "exploration"
        self.replaying = False   # a replay neither rewrites the evidence file nor clears the replay directory
        self.coverage: Dict[str, Any] = {}
        self.assumptions: List[str] = []

    @property
    def quick(self) -> bool:
        return self.tier == "quick"

    # -- findings -------------------------------------------------------------------
    def finding(self, sig: Sig, detail: str, case: Any) -> None:
        """File one failing case: under a known finding, or as a violation."""
        sig = tuple(sig)
        e = self.known.match(sig)
        if e is not None:
            self.known_hits[e["id"]] = self.known_hits.get(e["id"], 0) + 1
            self.known_examples.setdefault(e["id"], {"signature": list(sig), "detail": detail})
            return
        if sig not in self.violations:
            self.violations[sig] = {"signature": list(sig), "detail": detail, "case": case, "count": 1}
        else:
            self.violations[sig]["count"] += 1

    def merge_worker(self, res: dict) -> None:
        for v in res.get("violations", []):
            sig = tuple(v["signature"])
            if sig not in self.violations:
                self.violations[sig] = v
            else:
                self.violations[sig]["count"] += v.get("count", 1)
        for k, n in res.get("known_hits", {}).items():
            self.known_hits[k] = self.known_hits.get(k, 0) + n
        for k, ex in res.get("known_examples", {}).items():
            self.known_examples.setdefault(k, ex)

    # -- output -----------------------------------------------------------------------
    def finish(self) -> int:
        wall = time.time() - self.t0
        os.makedirs(os.path.join(VERIF, "evidence"), exist_ok=True)
        lines: List[str] = []
        for e in self.known.entries:
            n = self.known_hits.get(e["id"], 0)
            if n > 0:
                lines.append(f"KNOWN-FINDING: property={self.prop} {e['what']} [{e['id']}; {n} hits]")
        replay_dir = os.path.join(VERIF, "replays", self.prop)
        if os.path.isdir(replay_dir) and not self.replaying:
            for name in os.listdir(replay_dir):
                if name.endswith(".json"):
                    os.unlink(os.path.join(replay_dir, name))
        vio_list = sorted(self.violations.values(), key=lambda v: v["signature"])
        for v in vio_list:
            os.makedirs(replay_dir, exist_ok=True)
            h = hashlib.sha256(json.dumps(v["signature"]).encode()).hexdigest()[:12]
            path = os.path.join(replay_dir, f"{h}.json")
            if self.replaying and os.path.exists(path):
                lines.append(f"VIOLATION property={self.prop} replay={path}")
                lines.append(f"  signature={v['signature']} detail={v['detail']} (x{v['count']})")
                continue
            with open(path, "w") as f:
                json.dump(
                    {"property": self.prop, "signature": v["signature"], "detail": v["detail"],
                     "case": v["case"], "seed": self.seed, "tier": self.tier},
                    f, indent=1, default=repr, sort_keys=True,
                )
            lines.append(f"VIOLATION property={self.prop} replay={path}")
            lines.append(f"  signature={v['signature']} detail={v['detail']} (x{v['count']})")
        cov = dict(self.coverage)
        cov["known_finding_hits"] = dict(self.known_hits)
        ev = {
            "property_id": self.prop,
            "tier": self.tier,
            "seed": self.seed,
            "level": self.level,
            "coverage": cov,
            "assumptions": self.assumptions,
            "wall_s": round(wall, 2),
            "violations": len(vio_list),
        }
        if not self.replaying:
            with open(os.path.join(VERIF, "evidence", f"{self.prop}.json"), "w") as f:
                json.dump(ev, f, indent=1, default=repr, sort_keys=True)
        for ln in lines:
            print(ln)
        print(
            f"[{self.prop}] tier={self.tier} seed={self.seed} evaluations={cov.get('evaluations')} "
            f"distinct_nontrivial={cov.get('distinct_nontrivial')} violations={len(vio_list)} "
            f"known={sum(1 for e in self.known.entries if self.known_hits.get(e['id'], 0) > 0)} wall={wall:.1f}s"
        )
        return 1 if vio_list else 0


def pmap(fn: Callable, items: Sequence[Any], procs: int = NPROC) -> List[Any]:
    """Fork-based parallel map; worker exceptions are harness errors."""
    if procs <= 1 or len(items) <= 1:
        return [fn(x) for x in items]
    ctx = mp.get_context("fork")
    with ctx.Pool(min(procs, len(items))) as pool:
        return pool.map(fn, items, chunksize=1)


def chunks(items: Sequence[Any], n: int) -> List[List[Any]]:
    """n interleaved shards (balances heavy roots)."""
    out: List[List[Any]] = [[] for _ in range(n)]
    for i, x in enumerate(items):
        out[i % n].append(x)
    return [c for c in out if c]


def main(argv: Optional[List[str]] = None) -> int:
    ap = argparse.ArgumentParser(prog="check")
    ap.add_argument("prop")
    ap.add_argument("--tier", default=os.environ.get("VERIF_TIER", "quick"), choices=["quick", "thorough"])
    ap.add_argument("--seed", type=int, default=None)
    ap.add_argument("--replay", default=None)
    args = ap.parse_args(argv)
    seed = args.seed
    if seed is None:
        try:
            seed = int(os.environ.get("VERIF_SEED", "1"))
        except ValueError:
            seed = derive_seed(os.environ.get("VERIF_SEED")) % (2**31)
    prop = args.prop.upper()
    os.environ.setdefault("PYTHONHASHSEED", "0")
    try:
        mod = importlib.import_module(f"lspverif.props.{prop.lower()}")
        ctx = Ctx(prop, args.tier, seed)
        if args.replay:
            ctx.replaying = True
            return mod.replay(ctx, args.replay)
        mod.run(ctx)
        return ctx.finish()
    except HarnessError as e:
        print(f"HARNESS-ERROR property={prop}: {e}", file=sys.stderr)
        return 2
    except Exception:
        traceback.print_exc()
        print(f"HARNESS-ERROR property={prop}: unexpected exception in the machinery", file=sys.stderr)
        return 2
