"""Reference interpreter of the LSP metamodel (DESIGN 2.1).

Reads the JSON document directly.  Shares no code with generator.model or
lsprotocol.types: everything the oracles know about the protocol comes from here.
"""
from __future__ import annotations

import json
import keyword
import re
from typing import Any, Dict, Iterator, List, Optional, Tuple

INT_MIN, INT_MAX = -(2**31), 2**31 - 1
UINT_MIN, UINT_MAX = 0, 2**31 - 1

PAYLOAD_ALIASES = ("LSPAny", "LSPObject", "LSPArray")
STRING_BASES = ("string", "DocumentUri", "URI", "RegExp")


def load_doc(path: str) -> dict:
    with open(path, "r", encoding="utf-8") as f:
        return json.load(f)


# --- independent name derivations -------------------------------------------------

_RE1 = re.compile(r"(.)([A-Z][a-z]+)")
_RE2 = re.compile(r"([a-z0-9])([A-Z])")


def snake(name: str) -> str:
    """camelCase wire name -> python attribute name (keyword gets a trailing `_`)."""
    s = _RE2.sub(r"\1_\2", _RE1.sub(r"\1_\2", name)).lower()
    return s + "_" if keyword.iskeyword(s) else s


def upper_snake_method(method: str) -> str:
    m = method
    if m.startswith("$"):
        m = m[1:]
    if m.startswith("/"):
        m = m[1:]
    m = m.replace("/", "_")
    m = _RE2.sub(r"\1_\2", _RE1.sub(r"\1_\2", m))
    return m.upper()


def method_class_stem(method: str) -> str:
    name = method[2:] if method.startswith("$/") else method
    name = name.replace("/", "_")
    name = _RE2.sub(r"\1_\2", _RE1.sub(r"\1_\2", name))
    return "".join(p.title() for p in name.split("_"))


class Model:
    """Indexed view of a metamodel document."""

    def __init__(self, doc: dict):
        self.doc = doc
        self.structs: Dict[str, dict] = {s["name"]: s for s in doc["structures"]}
        self.enums: Dict[str, dict] = {e["name"]: e for e in doc["enumerations"]}
        self.aliases: Dict[str, dict] = {a["name"]: a for a in doc["typeAliases"]}
        self.requests: List[dict] = list(doc["requests"])
        self.notifications: List[dict] = list(doc["notifications"])
        self._flat: Dict[str, List[dict]] = {}
        self._mind: Dict[str, int] = {}

    # -- structure flattening ------------------------------------------------------
    def ancestors(self, name: str) -> List[str]:
        """extends then mixins, depth-first pre-order, duplicates removed."""
        out: List[str] = []

        def rec(n: str) -> None:
            s = self.structs[n]
            for r in (s.get("extends") or []) + (s.get("mixins") or []):
                if r.get("kind") == "reference" and r["name"] in self.structs:
                    if r["name"] not in out:
                        out.append(r["name"])
                    rec(r["name"])

        rec(name)
        return out

    def flat_props(self, name: str) -> List[dict]:
        """Own properties, then those of extends/mixins; first declaration of a name wins."""
        if name not in self._flat:
            props: List[dict] = []
            seen = set()
            for sname in [name] + self.ancestors(name):
                for p in self.structs[sname]["properties"]:
                    if p["name"] not in seen:
                        seen.add(p["name"])
                        props.append(dict(p, _declared_in=sname))
            self._flat[name] = props
        return self._flat[name]

    def and_props(self, t: dict) -> List[dict]:
        props: List[dict] = []
        seen = set()
        for it in t["items"]:
            assert it["kind"] == "reference"
            for p in self.flat_props(it["name"]):
                if p["name"] not in seen:
                    seen.add(p["name"])
                    props.append(p)
        return props

    # -- type predicates -----------------------------------------------------------
    @staticmethod
    def is_null(t: dict) -> bool:
        return t["kind"] == "base" and t["name"] == "null"

    @classmethod
    def admits_null(cls, t: dict) -> bool:
        """The documented rule: an `or` with a direct null member."""
        return t["kind"] == "or" and any(cls.is_null(i) for i in t["items"])

    @staticmethod
    def is_literal_prop(p: dict) -> bool:
        return p["type"]["kind"] == "stringLiteral"

    def is_special(self, p: dict) -> bool:
        return self.is_literal_prop(p) or self.admits_null(p["type"])

    def is_required(self, p: dict) -> bool:
        """Required constructor argument / must be present when parsing strictly."""
        return not p.get("optional") and not self.is_special(p)

    def resolve_alias(self, t: dict) -> dict:
        seen = set()
        while t["kind"] == "reference" and t["name"] in self.aliases and t["name"] not in PAYLOAD_ALIASES:
            if t["name"] in seen:
                break
            seen.add(t["name"])
            t = self.aliases[t["name"]]["type"]
        return t

    def enum_open(self, name: str, python_custom: bool = True) -> bool:
        e = self.enums[name]
        if e.get("supportsCustomValues"):
            return True
        # documented customisation of the python plugin (issue #344)
        return python_custom and name == "CompletionItemKind"

    def is_empty_object_type(self, t: dict) -> bool:
        """A structure or literal with zero declared properties is an open object."""
        if t["kind"] == "literal":
            return len(t["value"]["properties"]) == 0
        return False

    # -- enumeration of declared positions ----------------------------------------
    def messages(self) -> Iterator[Tuple[str, dict]]:
        for r in self.requests:
            yield "request", r
        for n in self.notifications:
            yield "notification", n

    def message_class_names(self, kind: str, m: dict) -> Tuple[str, Optional[str]]:
        """(request/notification class, response class) by the documented naming rule."""
        stem = m.get("typeName") or method_class_stem(m["method"])
        if kind == "request":
            if not stem.endswith("Request"):
                stem += "Request"
            part = stem[: -len("Request")]   # the suffix only: a name may contain "Request" elsewhere
            return part + "Request", part + "Response"
        if not stem.endswith("Notification"):
            stem += "Notification"
        return stem, None

    def iter_type_roots(self) -> Iterator[Tuple[str, dict]]:
        """Every place where a type expression is declared: (locus, type)."""
        for s in self.doc["structures"]:
            for p in s["properties"]:
                yield f"struct:{s['name']}.{p['name']}", p["type"]
        for a in self.doc["typeAliases"]:
            yield f"alias:{a['name']}", a["type"]
        for kind, m in self.messages():
            for f in ("params", "result", "partialResult", "registrationOptions", "errorData"):
                if f in m and isinstance(m[f], dict):
                    yield f"{kind}:{m['method']}:{f}", m[f]

    def iter_subtypes(self, locus: str, t: dict) -> Iterator[Tuple[str, dict]]:
        yield locus, t
        k = t["kind"]
        if k in ("or", "and", "tuple"):
            for i, it in enumerate(t["items"]):
                yield from self.iter_subtypes(f"{locus}|{i}", it)
        elif k == "array":
            yield from self.iter_subtypes(f"{locus}|[]", t["element"])
        elif k == "map":
            yield from self.iter_subtypes(f"{locus}|{{}}", t["value"])
        elif k == "literal":
            for p in t["value"]["properties"]:
                yield from self.iter_subtypes(f"{locus}|.{p['name']}", p["type"])

    def union_occurrences(self) -> List[Tuple[str, dict]]:
        out = []
        for locus, t in self.iter_type_roots():
            for l2, t2 in self.iter_subtypes(locus, t):
                if t2["kind"] == "or":
                    out.append((l2, t2))
        return out

    # -- minimal nesting depth (generator termination) ----------------------------
    def min_depth(self, t: dict, _stack: Tuple[str, ...] = ()) -> int:
        k = t["kind"]
        if k in ("base", "stringLiteral", "integerLiteral", "booleanLiteral"):
            return 0
        if k == "reference":
            n = t["name"]
            if n in PAYLOAD_ALIASES or n in self.enums:
                return 0
            if n in self.aliases:
                if n in _stack:
                    return 10**6
                return self.min_depth(self.aliases[n]["type"], _stack + (n,))
            if n in self.structs:
                if n in self._mind:
                    return self._mind[n]
                if n in _stack:
                    return 10**6
                d = 0
                for p in self.flat_props(n):
                    if not p.get("optional"):
                        d = max(d, self.min_depth(p["type"], _stack + (n,)))
                d += 1
                if d < 10**6:
                    self._mind[n] = d
                return d
            raise KeyError(f"unresolved reference {n}")
        if k == "array" or k == "map":
            return 0
        if k == "or":
            return min(self.min_depth(i, _stack) for i in t["items"])
        if k == "tuple":
            return max([self.min_depth(i, _stack) for i in t["items"]] or [0])
        if k == "and":
            d = 0
            for p in self.and_props(t):
                if not p.get("optional"):
                    d = max(d, self.min_depth(p["type"], _stack))
            return d + 1
        if k == "literal":
            d = 0
            for p in t["value"]["properties"]:
                if not p.get("optional"):
                    d = max(d, self.min_depth(p["type"], _stack))
            return d + 1
        raise ValueError(k)

    # -- validity -----------------------------------------------------------------
    def valid(self, j: Any, t: dict, strict: bool = True, python_custom: bool = False) -> bool:
        """Is JSON value j a valid instance of metamodel type t?

        strict=True  : undeclared keys are rejected (C17, "a valid reading").
        strict=False : undeclared keys are ignored (the package documents this, C15).
        python_custom: treat CompletionItemKind as open (the python plugin's customisation).
        """
        k = t["kind"]
        if k == "base":
            n = t["name"]
            if n in STRING_BASES:
                return isinstance(j, str)
            if n == "integer":
                return isinstance(j, int) and not isinstance(j, bool) and INT_MIN <= j <= INT_MAX
            if n == "uinteger":
                return isinstance(j, int) and not isinstance(j, bool) and UINT_MIN <= j <= UINT_MAX
            if n == "decimal":
                return isinstance(j, (int, float)) and not isinstance(j, bool)
            if n == "boolean":
                return isinstance(j, bool)
            if n == "null":
                return j is None
            raise ValueError(n)
        if k == "stringLiteral":
            return isinstance(j, str) and j == t["value"]
        if k == "integerLiteral":
            return isinstance(j, int) and not isinstance(j, bool) and j == t["value"]
        if k == "booleanLiteral":
            return isinstance(j, bool) and j == t["value"]
        if k == "reference":
            n = t["name"]
            if n == "LSPAny":
                return self._valid_any(j)
            if n == "LSPObject":
                return isinstance(j, dict) and all(self._valid_any(v) for v in j.values())
            if n == "LSPArray":
                return isinstance(j, list) and all(self._valid_any(v) for v in j)
            if n in self.enums:
                e = self.enums[n]
                base = e["type"]
                if not self.valid(j, base, strict):
                    return False
                if self.enum_open(n, python_custom):
                    return True
                return any(type(v["value"]) is type(j) and v["value"] == j for v in e["values"])
            if n in self.aliases:
                return self.valid(j, self.aliases[n]["type"], strict, python_custom)
            if n in self.structs:
                return self._valid_obj(j, self.flat_props(n), strict, python_custom)
            return False
        if k == "array":
            return isinstance(j, list) and all(self.valid(x, t["element"], strict, python_custom) for x in j)
        if k == "map":
            return (
                isinstance(j, dict)
                and all(self.valid_key(key, t["key"], python_custom) for key in j)
                and all(self.valid(v, t["value"], strict, python_custom) for v in j.values())
            )
        if k == "tuple":
            return (
                isinstance(j, list)
                and len(j) == len(t["items"])
                and all(self.valid(x, it, strict, python_custom) for x, it in zip(j, t["items"]))
            )
        if k == "or":
            return any(self.valid(j, it, strict, python_custom) for it in t["items"])
        if k == "and":
            return self._valid_obj(j, self.and_props(t), strict, python_custom)
        if k == "literal":
            return self._valid_obj(j, t["value"]["properties"], strict, python_custom)
        raise ValueError(k)

    def valid_key(self, key: Any, kt: dict, python_custom: bool = False) -> bool:
        """JSON object keys are strings; an `integer` key type constrains the text to an LSP integer, a reference to an
        enumeration constrains it like a value of that enumeration (integer-based enumerations: the decimal text)."""
        if not isinstance(key, str):
            return False
        kt = self.resolve_alias(kt)
        if kt["kind"] == "base" and kt["name"] == "integer":
            return self._int_text(key, INT_MIN, INT_MAX) is not None
        if kt["kind"] == "reference" and kt["name"] in self.enums:
            e = self.enums[kt["name"]]
            base = e["type"]["name"]
            if base == "string":
                v: Any = key
            else:
                v = self._int_text(key, *((INT_MIN, INT_MAX) if base == "integer" else (UINT_MIN, UINT_MAX)))
                if v is None:
                    return False
            return self.enum_open(kt["name"], python_custom) or any(type(x["value"]) is type(v) and x["value"] == v for x in e["values"])
        return True

    @staticmethod
    def _int_text(key: str, lo: int, hi: int) -> Optional[int]:
        if not re.fullmatch(r"-?(0|[1-9][0-9]*)", key):
            return None
        return int(key) if lo <= int(key) <= hi else None

    def _valid_any(self, j: Any) -> bool:
        if j is None or isinstance(j, (bool, str)):
            return True
        if isinstance(j, int):
            return True
        if isinstance(j, float):
            return j == j and j not in (float("inf"), float("-inf"))
        if isinstance(j, list):
            return all(self._valid_any(x) for x in j)
        if isinstance(j, dict):
            return all(isinstance(k, str) and self._valid_any(v) for k, v in j.items())
        return False

    def _valid_obj(self, j: Any, props: List[dict], strict: bool, python_custom: bool) -> bool:
        if not isinstance(j, dict):
            return False
        if len(props) == 0:
            return True  # open object: the metamodel's extension point
        names = set()
        for p in props:
            names.add(p["name"])
            if p["name"] in j:
                if not self.valid(j[p["name"]], p["type"], strict, python_custom):
                    return False
            elif not p.get("optional"):
                return False
        if strict and any(k not in names for k in j):
            return False
        return True

    # -- message envelopes (C17) ---------------------------------------------------
    def valid_id(self, j: Any) -> bool:
        return isinstance(j, str) or (isinstance(j, int) and not isinstance(j, bool) and INT_MIN <= j <= INT_MAX)

    def valid_request(self, j: Any, m: dict, strict: bool = True) -> bool:
        if not isinstance(j, dict):
            return False
        if j.get("jsonrpc") != "2.0" or j.get("method") != m["method"]:
            return False
        if "id" not in j or not self.valid_id(j["id"]):
            return False
        if not self._valid_params(j, m, strict):
            return False
        if strict and any(k not in ("jsonrpc", "id", "method", "params") for k in j):
            return False
        return True

    def _valid_params(self, j: dict, m: dict, strict: bool) -> bool:
        if m.get("params"):
            if "params" not in j:
                return False
            return self.valid(j["params"], m["params"], strict)
        # undeclared params: absent or null
        return "params" not in j or j["params"] is None

    def valid_notification(self, j: Any, m: dict, strict: bool = True) -> bool:
        if not isinstance(j, dict):
            return False
        if j.get("jsonrpc") != "2.0" or j.get("method") != m["method"]:
            return False
        if not self._valid_params(j, m, strict):
            return False
        if strict and any(k not in ("jsonrpc", "method", "params") for k in j):
            return False
        return True

    def valid_response(self, j: Any, m: dict, strict: bool = True) -> bool:
        if not isinstance(j, dict):
            return False
        if j.get("jsonrpc") != "2.0":
            return False
        if "id" not in j or not self.valid_id(j["id"]):
            return False
        if "result" in j:
            rt = m.get("result") or {"kind": "base", "name": "null"}
            if not self.valid(j["result"], rt, strict):
                return False
        if "error" in j:
            e = j["error"]
            if not isinstance(e, dict):
                return False
            if not self.valid(e.get("code"), {"kind": "base", "name": "integer"}):
                return False
            if not isinstance(e.get("message"), str):
                return False
            if "data" in e and not self._valid_any(e["data"]):
                return False
            if strict and any(k not in ("code", "message", "data") for k in e):
                return False
        if strict and any(k not in ("jsonrpc", "id", "result", "error") for k in j):
            return False
        return True
