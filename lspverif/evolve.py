"""Metamodel evolution generator (DESIGN 2.4): Hypothesis strategy producing schema-valid
edit sequences applied to a deep copy of the committed metamodel."""
from __future__ import annotations

import copy
import json
import keyword
from typing import Any, Callable, Dict, List, Optional, Tuple

import jsonschema
from hypothesis import strategies as st

from .refmodel import Model, PAYLOAD_ALIASES
from .runner import HarnessError
from .subject import repo_path

WORDS_U = ["Alpha", "Beta", "Gamma", "Delta", "Omega", "Sigma", "Kappa", "Zeta", "Lambda", "Theta"]
# free text of deprecated / since marks: what an upstream author may write in them
MARK_TEXTS = [
    "use something else",
    "Use `otherProperty` instead.\nKept for clients older than 3.16.",          # several lines
    "3.18.0 - proposed.\n  Only with {@link Position positions}.\n\nSee above.",
    "say \"quoted\" and 'single'",
    "path C:\\new\\table ends with \\",
    "/* c */ // x # y */ end",
    "<T> & </summary> {x} [y](#z)",
    "caf\u00e9 \U0001F600 \u2028 separated",
    "line1\r\nline2",
    "a\tb",
    "  padded  ",
    "%s {0} {name} $x",
    "@deprecated twice",
]
WORDS_L = ["alpha", "beta", "gamma", "delta", "omega", "sigma", "kappa", "zeta", "theta", "iota"]
BASES = ["string", "integer", "uinteger", "decimal", "boolean", "DocumentUri", "URI", "RegExp"]
SAFE_ALIASES = ["Pattern", "ChangeAnnotationIdentifier", "RegularExpressionEngineKind", "LSPAny", "LSPObject", "LSPArray",
                "DefinitionLink", "DeclarationLink"]


def rooted_schema() -> dict:
    with open(repo_path("generator", "lsp.schema.json")) as f:
        schema = json.load(f)
    return {**schema, "$ref": "#/definitions/MetaModel"}


_VALIDATOR = None


def schema_valid(doc: Any) -> bool:
    global _VALIDATOR
    if _VALIDATOR is None:
        s = rooted_schema()
        _VALIDATOR = jsonschema.Draft7Validator(s)
    return _VALIDATOR.is_valid(doc)


def schema_errors(doc: Any) -> List[str]:
    schema_valid({})
    return [e.message[:200] for e in list(_VALIDATOR.iter_errors(doc))[:3]]


def declared_names(doc: dict) -> set:
    names = {"jsonrpc", "id", "method", "params", "result", "error", "code", "message", "data"}
    m = Model(doc)
    for s in doc["structures"]:
        names.update(p["name"] for p in s["properties"])
    for locus, t in m.iter_type_roots():
        for _, t2 in m.iter_subtypes(locus, t):
            if t2["kind"] == "literal":
                names.update(p["name"] for p in t2["value"]["properties"])
    return names


class Evolver:
    """Applies drawn edits to a document.  Every random choice goes through `draw`."""

    def __init__(self, base: dict, draw: Callable, allow: Optional[set] = None):
        self.doc = copy.deepcopy(base)
        self.draw = draw
        self.allow = allow  # restrict edit kinds (None = all)
        self.edits: List[dict] = []
        self.counter = 0
        self.taken_props = declared_names(base)
        self.taken_types = {s["name"] for s in base["structures"]} | {e["name"] for e in base["enumerations"]} | {a["name"] for a in base["typeAliases"]}
        self.new_structs: List[str] = []
        self.new_enums: List[str] = []
        self.base_structs = [s["name"] for s in base["structures"] if not s["name"].startswith("_") and s["name"] != "LSPObject"]
        self.base_structs_decl = list(base["structures"])
        self.closed_enums = [e["name"] for e in base["enumerations"] if not e.get("supportsCustomValues") and e["name"] != "CompletionItemKind"]
        self.kw_names = [k for k in keyword.kwlist if k.islower() and k.isalpha()]
        # structures that are alternatives of a general union (>= 2 non-null alternatives, directly or through
        # aliases): their hand-written hooks discriminate on today's property sets, so changing those sets needs a
        # hook change - outside the generator's input discipline, like new general unions
        bm = Model(base)
        self.union_alternatives: set = set()

        def alt_structs(t: dict, seen: tuple = ()) -> List[str]:
            if t["kind"] == "reference":
                n = t["name"]
                if n in bm.structs:
                    return [n]
                if n in bm.aliases and n not in seen and n not in PAYLOAD_ALIASES:
                    return alt_structs(bm.aliases[n]["type"], seen + (n,))
                return []
            if t["kind"] == "array":
                return alt_structs(t["element"], seen)
            if t["kind"] == "or":
                return [s for i in t["items"] for s in alt_structs(i, seen)]
            return []

        for _, t in bm.union_occurrences():
            if len([i for i in t["items"] if not bm.is_null(i)]) >= 2:
                for i in t["items"]:
                    self.union_alternatives.update(alt_structs(i))
        # ... and their ancestors: a property added to StaticRegistrationOptions changes the property sets of the
        # <X>RegistrationOptions alternatives just the same
        for s in list(self.union_alternatives):
            self.union_alternatives.update(bm.ancestors(s))

    # -- helpers --------------------------------------------------------------------
    def pick(self, seq: List[Any]) -> Any:
        return seq[self.draw(st.integers(0, len(seq) - 1))]

    def fresh_type_name(self, prefix: str = "Vf") -> str:
        for _ in range(50):
            self.counter += 1
            name = prefix + self.pick(WORDS_U) + self.pick(WORDS_U)
            if name in self.taken_types or self.draw(st.booleans()):
                name += str(self.counter)
            if name not in self.taken_types:
                self.taken_types.add(name)
                return name
        raise HarnessError("cannot find a fresh type name")

    def fresh_prop_name(self, local: set) -> str:
        for _ in range(100):
            mode = self.draw(st.integers(0, 6))
            if mode == 0:
                name = self.pick(self.kw_names)
            elif mode == 1:
                name = self.pick(WORDS_L)
            elif mode == 6:
                # words that end in digits, one-letter words (utf8Offset, is64Bit, point3D, xRange)
                name = self.pick(["utf8", "utf16", "is64", "sha256", "point3", "x", "v2", "base64"]) + self.pick(WORDS_U + ["D", "Bit", "X"])
            else:
                name = self.pick(WORDS_L) + "".join(self.pick(WORDS_U) for _ in range(self.draw(st.integers(1, 2))))
            if (name in self.taken_props or name in local) and name[-1].isupper():
                continue   # (a one-letter last word followed by more words would be an acronym: point3D + Alpha)
            if name in self.taken_props or name in local:
                # letter-only disambiguation (names must stay lowerCamel words)
                self.counter += 1
                c = self.counter
                name = name + WORDS_U[c % 10] + WORDS_U[(c // 10) % 10] + WORDS_U[(c // 100) % 10]
            if name not in self.taken_props and name not in local:
                local.add(name)
                return name
        raise HarnessError("cannot find a fresh property name")

    def simple_type(self, depth: int = 0, allow_literal: bool = True, force: Optional[str] = None) -> dict:
        """type grammar for new properties (no general unions)."""
        kinds = ["base", "base", "ref-struct", "ref-enum", "ref-alias"]
        if depth < 2:
            kinds += ["array", "map", "tuple", "ornull"]
            if allow_literal:
                kinds += ["literal", "array-literal", "ornull-literal", "array-ornull", "map-ornull", "ornull-array-literal"]
        k = force or self.pick(kinds)
        if k in ("array-ornull", "map-ornull"):
            inner = self.simple_type(depth + 2, allow_literal=False)
            while inner["kind"] == "or":
                inner = self.simple_type(depth + 2, allow_literal=False)
            nullable = {"kind": "or", "items": [inner, {"kind": "base", "name": "null"}]}
            if k == "array-ornull":
                return {"kind": "array", "element": nullable}
            return {"kind": "map", "key": {"kind": "base", "name": "string"}, "value": nullable}
        if k in ("array-literal", "ornull-literal", "ornull-array-literal"):
            local: set = set()
            props = [self.new_property(local, depth + 2, allow_literal=False, optional=(i >= 2)) for i in range(self.draw(st.integers(2, 3)))]
            lit = {"kind": "literal", "value": {"properties": props}}
            if k == "array-literal":
                return {"kind": "array", "element": lit}
            if k == "ornull-array-literal":
                lit = {"kind": "array", "element": lit}
            items = [lit, {"kind": "base", "name": "null"}]
            return {"kind": "or", "items": items if self.draw(st.booleans()) else items[::-1]}
        if k in ("ornull-first", "ornull-last"):
            inner = self.simple_type(depth + 1, allow_literal)
            while inner["kind"] == "or":
                inner = self.simple_type(depth + 1, allow_literal)
            items = [inner, {"kind": "base", "name": "null"}]
            return {"kind": "or", "items": items if k == "ornull-last" else items[::-1]}
        if k == "ornull-string-literal":
            lit = {"kind": "stringLiteral", "value": "vf" + self.pick(WORDS_U)}
            items = [lit, {"kind": "base", "name": "null"}]
            return {"kind": "or", "items": items if self.draw(st.booleans()) else items[::-1]}
        if k == "base":
            return {"kind": "base", "name": self.pick(BASES)}
        if k == "ref-struct":
            pool = self.new_structs * 3 + self.base_structs
            return {"kind": "reference", "name": self.pick(pool)}
        if k == "ref-enum":
            pool = self.new_enums * 3 + self.closed_enums
            if not pool:
                return {"kind": "base", "name": "uinteger"}
            return {"kind": "reference", "name": self.pick(pool)}
        if k == "ref-alias":
            present = [a for a in SAFE_ALIASES if any(x["name"] == a for x in self.doc["typeAliases"])]
            if not present:
                return {"kind": "base", "name": "string"}
            return {"kind": "reference", "name": self.pick(present)}
        if k == "array":
            return {"kind": "array", "element": self.simple_type(depth + 1, allow_literal)}
        if k == "map":
            return {"kind": "map", "key": {"kind": "base", "name": self.pick(["string", "DocumentUri", "URI", "integer"])},
                    "value": self.simple_type(depth + 1, False)}
        if k == "map-intkey":
            return {"kind": "map", "key": {"kind": "base", "name": "integer"}, "value": self.simple_type(depth + 1, False)}
        if k == "map-enumkey":
            pool = self.new_enums * 2 + self.closed_enums + [e["name"] for e in self.doc["enumerations"] if e.get("supportsCustomValues")]
            # keys of a JSON object are strings: an enumeration is a key type only when its values are strings (an integer-valued
            # one has no spelling as a key that the metamodel or the package defines - see DESIGN 2.4)
            stringy = {e["name"] for e in self.doc["enumerations"] if e["values"] and all(isinstance(v["value"], str) for v in e["values"])}
            pool = [n for n in pool if n in stringy]
            if not pool:
                return {"kind": "map", "key": {"kind": "base", "name": "integer"}, "value": {"kind": "base", "name": "string"}}
            return {"kind": "map", "key": {"kind": "reference", "name": self.pick(pool)}, "value": self.simple_type(depth + 1, False)}
        if k == "string-literal":
            # the prefixes take turns, so that a model with a handful of literals has every kind of value
            self.literal_turn = getattr(self, "literal_turn", self.draw(st.integers(0, 6))) + 1
            prefix = ["vf", "vf\U0001F680", "vf-", "vf caf\u00e9 ", "vf.", "vf/", "vf"][self.literal_turn % 7]
            return {"kind": "stringLiteral", "value": prefix + self.pick(WORDS_U)}
        if k == "tuple":
            n = self.draw(st.integers(2, 3))
            return {"kind": "tuple", "items": [{"kind": "base", "name": self.pick(["string", "integer", "uinteger", "boolean", "decimal"])} for _ in range(n)]}
        if k == "ornull":
            inner = self.simple_type(depth + 1, allow_literal)
            while inner["kind"] == "or":
                inner = self.simple_type(depth + 1, allow_literal)
            items = [inner, {"kind": "base", "name": "null"}]
            if self.draw(st.integers(0, 2)) == 0:
                items.reverse()  # `null | X`: the metamodel does not prescribe where null stands
            return {"kind": "or", "items": items}
        if k == "literal":
            local: set = set()
            n = self.draw(st.integers(1, 3))
            props = [self.new_property(local, depth + 2, allow_literal=False) for _ in range(n)]
            return {"kind": "literal", "value": {"properties": props}}
        raise ValueError(k)

    def new_property(self, local: set, depth: int = 0, allow_literal: bool = True, force: Optional[str] = None,
                     optional: Optional[bool] = None) -> dict:
        p: Dict[str, Any] = {"name": self.fresh_prop_name(local), "type": self.simple_type(depth, allow_literal, force)}
        if optional is None:
            optional = self.draw(st.booleans())
        if optional:
            p["optional"] = True
        elif self.draw(st.integers(0, 3)) == 0:
            p["optional"] = False   # the flag written out: the same as leaving it away
        if self.draw(st.integers(0, 4)) == 0:
            self.mark(p)
        return p

    def mark(self, decl: dict) -> List[str]:
        marks = []
        for m in ("proposed", "deprecated", "since", "sinceTags", "documentation"):
            if self.draw(st.integers(0, 3)) == 0:
                marks.append(m)
        if not marks:
            marks = [self.pick(["proposed", "deprecated", "since", "documentation"])]
        for m in marks:
            if m == "proposed":
                decl["proposed"] = True
            elif m == "deprecated":
                decl["deprecated"] = self.pick(MARK_TEXTS)
            elif m == "since":
                decl["since"] = self.pick(["3.18.0", "3.18.0"] + MARK_TEXTS)
            elif m == "sinceTags":
                decl["sinceTags"] = ["3.17.0", self.pick(["3.18.0"] + MARK_TEXTS)]
            elif m == "documentation":
                decl["documentation"] = "Evolved declaration.\nSecond line with {@link Position} and `code`.\n@since 3.18.0"
        return marks

    def keep_inhabitable(self, new_props: List[dict]) -> None:
        """a required property must not close a reference cycle (the type would have no finite value)."""
        m = Model(self.doc)
        bad = any(m.min_depth({"kind": "reference", "name": s["name"]}) >= 10**5 for s in self.doc["structures"])
        if bad:
            for p in new_props:
                p["optional"] = True
            m = Model(self.doc)
            if any(m.min_depth({"kind": "reference", "name": s["name"]}) >= 10**5 for s in self.doc["structures"]):
                raise HarnessError("evolve produced an uninhabitable structure")

    # -- edits ------------------------------------------------------------------------
    def e_new_structure(self) -> None:
        name = self.fresh_type_name()
        local: set = set()
        n = self.draw(st.integers(0, 4))
        s: Dict[str, Any] = {"name": name, "properties": [self.new_property(local) for _ in range(n)]}
        parents = []
        for _ in range(self.draw(st.integers(0, 2))):
            parents.append(self.pick(self.new_structs * 2 + self.base_structs))
        parents = list(dict.fromkeys(parents))
        if parents:
            k = self.draw(st.integers(0, len(parents)))
            if parents[:k]:
                s["extends"] = [{"kind": "reference", "name": p} for p in parents[:k]]
            if parents[k:]:
                s["mixins"] = [{"kind": "reference", "name": p} for p in parents[k:]]
        self.doc["structures"].append(s)
        self.keep_inhabitable(s["properties"])
        self.new_structs.append(name)
        self.edits.append({"edit": "E1-new-structure", "name": name, "properties": [p["name"] for p in s["properties"]],
                           "extends": [x["name"] for x in s.get("extends", [])], "mixins": [x["name"] for x in s.get("mixins", [])]})

    def e_override_chain(self) -> None:
        """Mid extends B and re-declares one inherited property (as CreateFile does with `kind`); Leaf extends Mid."""
        m = Model(self.doc)
        cands = [s for s in self.new_structs + self.base_structs if m.flat_props(s)]
        if not cands:
            return
        b = self.pick(cands)
        props = m.flat_props(b)
        q = self.pick(props)
        t = q["type"]
        if t == {"kind": "base", "name": "string"}:
            nt: Dict[str, Any] = {"kind": "stringLiteral", "value": "vf" + self.pick(WORDS_U)}
        elif t == {"kind": "base", "name": "integer"}:
            nt = {"kind": "base", "name": "uinteger"}
        elif t.get("kind") == "stringLiteral":
            nt = {"kind": "stringLiteral", "value": t["value"] + "Vf"}
        else:
            nt = {"kind": "base", "name": self.pick(["string", "boolean", "uinteger"])}
        over = {"name": q["name"], "type": nt}
        if self.draw(st.booleans()) and nt["kind"] != "stringLiteral":
            over["optional"] = True
        mid = self.fresh_type_name()
        leaf = self.fresh_type_name()
        local = {p["name"] for p in props}
        self.doc["structures"].append({"name": mid, "properties": [over] + [self.new_property(local) for _ in range(self.draw(st.integers(0, 1)))],
                                       "extends": [{"kind": "reference", "name": b}]})
        self.doc["structures"].append({"name": leaf, "properties": [self.new_property(local) for _ in range(self.draw(st.integers(0, 2)))],
                                       "extends": [{"kind": "reference", "name": mid}]})
        self.keep_inhabitable(self.doc["structures"][-1]["properties"] + self.doc["structures"][-2]["properties"][1:])
        self.new_structs += [mid, leaf]
        self.edits.append({"edit": "E8-override-chain", "base": b, "property": q["name"], "type": nt, "mid": mid, "leaf": leaf})

    FOCI = ["ornull-first", "ornull-last", "literal", "tuple", "map", "array", "ref-enum", "ref-alias", "ref-struct", "base",
            "override-chain", "keyword-name", "message", "enum-value", "remove-optional", "new-structure",
            # productions that once exposed a defect (kept as a standing floor)
            "message-no-typename", "rust-keyword-name", "base-regexp", "empty-struct-property", "request-no-typename",
            "matrix", "same-name-different-nullness", "shared-registration-method", "diamond",
            "message-regopts-no-params", "explicit-closed-enum", "and-registration-options", "deep-mixin", "confusing-message-names", "exotic-enum-values", "message-map-keys", "marked-everything", "alias-shapes", "declares-response-error", "method-mentions-request", "literal-name-collision", "big-declarations", "case-only-names", "mutual-recursion", "digit-names", "substring-names", "selection-range-additions", "short-names", "result-name-collision", "nested-literals"]
    RUST_AND_PYTHON_KEYWORDS = ["in", "for", "as", "if", "else", "while", "continue", "break", "return", "async", "await", "try", "yield"]

    MATRIX_PRODUCTIONS = ["base", "ref-struct", "ref-enum", "ref-alias", "array", "map", "tuple", "ornull-first", "ornull-last", "literal",
                          "array-literal", "ornull-literal", "array-ornull", "map-ornull", "string-literal", "ornull-array-literal", "map-intkey", "map-enumkey", "ornull-string-literal"]

    def e_matrix(self) -> None:
        """new structures whose properties cover every pair (name kind x type production x required/optional):
        defects tend to need two features at once (a keyword name AND a null-admitting required type...)."""
        py_only = [k for k in self.kw_names if k not in self.RUST_AND_PYTHON_KEYWORDS and k not in self.taken_props]
        rust_py = [k for k in self.RUST_AND_PYTHON_KEYWORDS if k not in self.taken_props]
        combos = [(prod, opt) for prod in self.MATRIX_PRODUCTIONS for opt in (False, True)]
        made = []
        for kind, pool in (("plain", None), ("python-keyword", py_only), ("rust-keyword", rust_py)):
            remaining = list(combos)
            while remaining:
                name = self.fresh_type_name("VfMx")
                local: set = set()
                props = []
                names_left = list(pool) if pool is not None else None
                while remaining and (names_left is None or names_left):
                    prod, opt = remaining.pop(0)
                    p = self.new_property(local, depth=1, force=prod, optional=opt)
                    # marks cycle through the properties (none / proposed / deprecated / since), out of step with the
                    # required/optional alternation: required properties get every mark too
                    mark_i = (len(props) + len(props) // 2) % 4
                    for m_ in ("proposed", "deprecated", "since", "sinceTags", "documentation"):
                        p.pop(m_, None)
                    if mark_i == 1:
                        p["proposed"] = True
                    elif mark_i == 2:
                        p["deprecated"] = "use something else"
                    elif mark_i == 3:
                        p["since"] = "3.18.0"
                        p["documentation"] = "Documented.\n@since 3.18.0"
                    if names_left is not None:
                        local.discard(p["name"])
                        p["name"] = names_left.pop(0)
                        local.add(p["name"])
                    if not opt and kind == "python-keyword":
                        p["optional"] = False    # every production once with the flag written out as false
                    elif not opt:
                        p.pop("optional", None)
                    props.append(p)
                self.doc["structures"].append({"name": name, "properties": props})
                self.keep_inhabitable(props)
                self.new_structs.append(name)
                made.append(name)
        self.edits.append({"edit": "E1-matrix", "structures": made})

    def e_diamond(self) -> None:
        """a structure whose `extends` parent and `mixins` parent both declare the same property differently."""
        q = self.fresh_prop_name(set())
        a, mname, s = self.fresh_type_name("VfDa"), self.fresh_type_name("VfDm"), self.fresh_type_name("VfDs")
        local = {q}
        self.doc["structures"].append({"name": a, "properties": [{"name": q, "type": {"kind": "base", "name": "string"}}, self.new_property(local)]})
        self.doc["structures"].append({"name": mname, "properties": [{"name": q, "type": {"kind": "base", "name": "uinteger"}, "optional": True}, self.new_property(local)]})
        self.doc["structures"].append({"name": s, "properties": [self.new_property(local)],
                                       "extends": [{"kind": "reference", "name": a}], "mixins": [{"kind": "reference", "name": mname}]})
        self.keep_inhabitable([p for st_ in self.doc["structures"][-3:] for p in st_["properties"] if p["name"] != q])
        self.new_structs += [a, mname, s]
        self.edits.append({"edit": "E1-diamond", "structures": [a, mname, s], "property": q})
        # a true diamond (two parents sharing an ancestor), declared most derived first: X, then its parents, then the ancestor
        g, pa, pn, x = self.fresh_type_name("VfDg"), self.fresh_type_name("VfDp"), self.fresh_type_name("VfDn"), self.fresh_type_name("VfDx")
        S_ = {"kind": "base", "name": "string"}
        how = self.pick(["extends+extends", "extends+mixins", "mixins+mixins"])
        xdecl = {"name": x, "properties": [{"name": "vfOwnWord", "type": S_, "optional": True}]}
        ra, rn = {"kind": "reference", "name": pa}, {"kind": "reference", "name": pn}
        if how == "extends+extends":
            xdecl["extends"] = [ra, rn]
        elif how == "extends+mixins":
            xdecl["extends"], xdecl["mixins"] = [ra], [rn]
        else:
            xdecl["mixins"] = [ra, rn]
        decls = [xdecl,
                 {"name": pa, "properties": [{"name": "vfLeft", "type": S_}], "extends": [{"kind": "reference", "name": g}]},
                 {"name": pn, "properties": [{"name": "vfRight", "type": {"kind": "base", "name": "uinteger"}, "optional": True}], "mixins": [{"kind": "reference", "name": g}]},
                 {"name": g, "properties": [{"name": "vfShared", "type": S_}, {"name": "vfSharedKinds", "type": {"kind": "array", "element": S_}, "optional": True}]}]
        self.doc["structures"] += decls
        self.new_structs += [x, pa, pn, g]
        self.counter += 1
        self.doc["notifications"].append({"method": f"vf/diamond{self.counter}", "messageDirection": "both", "params": {"kind": "reference", "name": x}})
        self.edits.append({"edit": "E1-diamond", "structures": [x, pa, pn, g], "property": "vfShared"})
        self.edits.append({"edit": "E6-new-message", "method": f"vf/diamond{self.counter}", "request": False})

    def e_same_name(self) -> None:
        """new structures that reuse one property name with the same value type but different optional/null-admission
        (names need not be globally unique in the metamodel: `command`, `data`, `kind`... occur in many structures)."""
        inner = self.simple_type(1, allow_literal=False, force=self.pick(["ref-struct", "array", "ref-alias"]))
        pname = self.fresh_prop_name(set())
        null = {"kind": "base", "name": "null"}
        variants = [
            {"name": pname, "type": inner, "optional": True},
            {"name": pname, "type": {"kind": "or", "items": [inner, null]}, "optional": True},
            {"name": pname, "type": {"kind": "or", "items": [inner, null]}},
            {"name": pname, "type": inner},
        ]
        order = self.draw(st.permutations(list(range(4))))
        made = []
        for i in order:
            name = self.fresh_type_name("VfSn")
            self.doc["structures"].append({"name": name, "properties": [copy.deepcopy(variants[i])]})
            self.new_structs.append(name)
            made.append(name)
        # ... and structures that get the name from two different ancestors (the first one in extends, mixins order wins)
        kids = []
        for (i, j, how) in ((0, 1, "extends"), (2, 0, "extends"), (1, 3, "mixed"), (3, 2, "mixins")):
            kid = self.fresh_type_name("VfSnKid")
            a, b = {"kind": "reference", "name": made[i]}, {"kind": "reference", "name": made[j]}
            decl = {"name": kid, "properties": [{"name": "vfOwn" + WORDS_U[len(kids)], "type": {"kind": "base", "name": "string"}, "optional": True}]}
            if how == "extends":
                decl["extends"] = [a, b]
            elif how == "mixins":
                decl["mixins"] = [a, b]
            else:
                decl["extends"], decl["mixins"] = [a], [b]
            self.doc["structures"].append(decl)
            self.new_structs.append(kid)
            kids.append(kid)
        self.counter += 1
        self.doc["notifications"].append({"method": f"vf/sameName{self.counter}", "messageDirection": "both", "params": {"kind": "reference", "name": kids[0]}})
        self.keep_inhabitable([])
        self.edits.append({"edit": "E1-same-name", "structures": made + kids, "property": pname})
        self.edits.append({"edit": "E6-new-message", "method": f"vf/sameName{self.counter}", "request": False})

    def e_focus(self, focus: str) -> None:
        """one edit that is guaranteed to exercise the named production (generation floor of a run)."""
        if focus == "matrix":
            return self.e_matrix()
        if focus == "same-name-different-nullness":
            return self.e_same_name()
        if focus == "diamond":
            return self.e_diamond()
        if focus == "override-chain":
            return self.e_override_chain()
        if focus == "message":
            return self.e_new_message()
        if focus == "message-map-keys":
            # maps keyed by integers / enumerations, reachable from a message (so that test vectors exist for them)
            name = self.fresh_type_name("VfKeyed")
            local: set = set()
            props = []
            for prod, opt in (("map-intkey", False), ("map-enumkey", True), ("map-enumkey", False), ("map-intkey", True)):
                props.append(self.new_property(local, depth=1, allow_literal=False, force=prod, optional=opt))
                local.add(props[-1]["name"])
            self.doc["structures"].append({"name": name, "properties": props})
            self.keep_inhabitable(props)
            self.new_structs.append(name)
            self.edits.append({"edit": "E1-new-structure", "name": name, "properties": [p["name"] for p in props]})
            self.counter += 1
            msg = {"method": f"vf/keyed{self.counter}", "messageDirection": "both", "params": {"kind": "reference", "name": name}}
            if self.draw(st.booleans()):
                msg["typeName"] = self.fresh_type_name("Vm") + "Notification"
            self.doc["notifications"].append(msg)
            self.edits.append({"edit": "E6-new-message", "method": msg["method"], "request": False})
            return
        if focus == "exotic-enum-values":
            name = self.fresh_type_name("Ve")
            vals = [("Plain", "plain"), ("Accent", "caf\u00e9"), ("Astral", "smile\U0001F600"), ("Dotted", "a.b-c"), ("Spaced", "two words"),
                    ("Escape", "esc\u001b[0m"), ("Bell", "b\u0007x"), ("Tab", "t\tx")]
            self.doc["enumerations"].append({"name": name, "type": {"kind": "base", "name": "string"},
                                             "values": [{"name": n, "value": v} for n, v in vals]})
            self.new_enums.append(name)
            self.edits.append({"edit": "E3-new-enum", "name": name, "base": "string", "values": [v for _, v in vals]})
            # two names for one value, as LanguageKind and ErrorCodes have them in the committed model
            for base_, pairs in (("string", [("Shell", "shellscript"), ("Bash", "shellscript"), ("Other", "other")]), ("uinteger", [("Low", 1), ("Lowest", 1), ("High", 2)])):
                dn = self.fresh_type_name("VeDup")
                self.doc["enumerations"].append({"name": dn, "type": {"kind": "base", "name": base_}, "values": [{"name": n, "value": v} for n, v in pairs]})
                self.new_enums.append(dn)
                self.closed_enums.append(dn)
                self.edits.append({"edit": "E3-new-enum", "name": dn, "base": base_, "values": [v for _, v in pairs]})
            self.e_new_property(force="ref-enum")
            return self.e_new_property(force="ref-enum")
        if focus == "and-registration-options":
            # an item that re-declares a property of its parent with another integer kind / null-admission: the nearest wins
            base_n, item_n = self.fresh_type_name("VfAndBase"), self.fresh_type_name("VfAndItem")
            U_, I_ = {"kind": "base", "name": "uinteger"}, {"kind": "base", "name": "integer"}
            self.doc["structures"].append({"name": base_n, "properties": [{"name": "vfLimit", "type": I_}, {"name": "vfDepth", "type": U_, "optional": True},
                                                                        {"name": "vfNote", "type": {"kind": "or", "items": [{"kind": "base", "name": "string"}, {"kind": "base", "name": "null"}]}},
                                                                        # (and one the item only inherits)
                                                                        {"name": "vfInherited", "type": {"kind": "base", "name": "string"}, "optional": True}]})
            self.doc["structures"].append({"name": item_n, "extends": [{"kind": "reference", "name": base_n}],
                                           "properties": [{"name": "vfLimit", "type": U_}, {"name": "vfDepth", "type": I_}, {"name": "vfNote", "type": {"kind": "base", "name": "string"}, "optional": True}]})
            self.new_structs += [base_n, item_n]
            self.edits.append({"edit": "E1-new-structure", "name": base_n, "properties": ["vfLimit", "vfDepth", "vfNote", "vfInherited"]})
            self.edits.append({"edit": "E1-new-structure", "name": item_n, "properties": ["vfLimit", "vfDepth", "vfNote"]})
            self.counter += 1
            ov = {"method": f"vf/andOverride{self.counter}", "messageDirection": "clientToServer", "params": self._struct_ref(), "result": {"kind": "base", "name": "null"},
                  "registrationOptions": {"kind": "and", "items": [{"kind": "reference", "name": "TextDocumentRegistrationOptions"}, {"kind": "reference", "name": item_n}]}}
            if any(s["name"] == "TextDocumentRegistrationOptions" for s in self.doc["structures"]):
                self.doc["requests"].append(ov)
                self.edits.append({"edit": "E5-new-request", "method": ov["method"], "typeName": None, "params": ov["params"], "result": ov["result"], "registrationOptions": ov["registrationOptions"]})
            # an item with a short-named literal property (the literal's class must not take the name of the `and` class being
            # built), and an item that reaches a property of the other item as well (declared once in the `and` class)
            S2_ = {"kind": "base", "name": "string"}
            shorty, sharing = self.fresh_type_name("VfAndShort"), self.fresh_type_name("VfAndSharing")
            self.doc["structures"].append({"name": shorty, "properties": [{"name": "env", "type": {"kind": "literal", "value": {"properties": [{"name": "cwd", "type": S2_}]}}, "optional": True},
                                                                           {"name": "vfPlain", "type": S2_, "optional": True}]})
            self.doc["structures"].append({"name": sharing, "properties": [{"name": "vfOwn", "type": S2_, "optional": True}], "mixins": [{"kind": "reference", "name": base_n}]})
            self.new_structs += [shorty, sharing]
            self.edits.append({"edit": "E1-new-structure", "name": shorty, "properties": ["env", "vfPlain"]})
            self.edits.append({"edit": "E1-new-structure", "name": sharing, "properties": ["vfOwn"]})
            for items_ in ([{"kind": "reference", "name": shorty}, {"kind": "reference", "name": item_n}], [{"kind": "reference", "name": item_n}, {"kind": "reference", "name": sharing}]):
                self.counter += 1
                m_ = {"method": f"vf/andShapes{self.counter}", "messageDirection": "clientToServer", "params": self._struct_ref(), "result": {"kind": "base", "name": "null"},
                      "registrationOptions": {"kind": "and", "items": items_}}
                if self.draw(st.booleans()):
                    m_["typeName"] = self.fresh_type_name("Vm") + "Request"
                self.doc["requests"].append(m_)
                self.edits.append({"edit": "E5-new-request", "method": m_["method"], "typeName": m_.get("typeName"), "params": m_["params"], "result": m_["result"], "registrationOptions": m_["registrationOptions"]})
            # items without any property (InitializedParams-like): the class of the `and` type has an empty body
            ea, eb = self.fresh_type_name("VfEmptyA"), self.fresh_type_name("VfEmptyB")
            for n_ in (ea, eb):
                self.doc["structures"].append({"name": n_, "properties": []})
                self.new_structs.append(n_)
                self.edits.append({"edit": "E1-new-structure", "name": n_, "properties": []})
            self.counter += 1
            em = {"method": f"vf/andEmpty{self.counter}", "messageDirection": "clientToServer", "params": self._struct_ref(), "result": {"kind": "base", "name": "null"},
                  "registrationOptions": {"kind": "and", "items": [{"kind": "reference", "name": ea}, {"kind": "reference", "name": eb}]}}
            self.doc["requests"].append(em)
            self.edits.append({"edit": "E5-new-request", "method": em["method"], "typeName": None, "params": em["params"], "result": em["result"], "registrationOptions": em["registrationOptions"]})
            # (requests and notifications, with and without typeName)
            for is_req, typed, first in ((True, True, True), (True, False, False), (False, True, False), (False, False, True)):
                self.counter += 1
                cands = [s for s in self.base_structs if s.endswith("Options") and not s.endswith("RegistrationOptions")]
                if first:   # an item whose properties come (also) from what it extends or mixes in
                    with_parents = {s["name"] for s in self.doc["structures"] if s.get("extends") or s.get("mixins")}
                    cands = [s for s in cands if s in with_parents] or cands
                opts = self.pick(cands or self.base_structs)
                items = [{"kind": "reference", "name": "TextDocumentRegistrationOptions"}, {"kind": "reference", "name": opts}]
                if not any(s["name"] == "TextDocumentRegistrationOptions" for s in self.doc["structures"]):
                    return
                msg = {"method": f"vf/andOptions{self.counter}", "messageDirection": "clientToServer", "params": self._struct_ref(),
                       "registrationOptions": {"kind": "and", "items": items if first else items[::-1]}}
                if typed:
                    msg["typeName"] = self.fresh_type_name("Vm") + ("Request" if is_req else "Notification")
                if is_req:
                    msg["result"] = {"kind": "base", "name": "null"}
                    self.doc["requests"].append(msg)
                else:
                    self.doc["notifications"].append(msg)
                self.edits.append({"edit": "E5-new-request" if is_req else "E5-new-notification", "method": msg["method"], "typeName": msg.get("typeName"),
                                   "params": msg["params"], "result": msg.get("result"), "registrationOptions": msg["registrationOptions"]})
            return
        if focus == "deep-mixin":
            b, mname, s = self.fresh_type_name("VfDb"), self.fresh_type_name("VfDx"), self.fresh_type_name("VfDy")
            local: set = set()
            # (the base contributes a required property; the leaf is the params of a message, so test vectors exist for it)
            self.doc["structures"].append({"name": b, "properties": [self.new_property(local, force="base", optional=False), self.new_property(local)]})
            self.doc["structures"].append({"name": mname, "properties": [self.new_property(local)], "extends": [{"kind": "reference", "name": b}],
                                           "mixins": [{"kind": "reference", "name": self.pick([x for x in ("WorkDoneProgressParams", "PartialResultParams") if any(y["name"] == x for y in self.doc["structures"])] or [b])}]})
            self.doc["structures"].append({"name": s, "properties": [self.new_property(local)], "mixins": [{"kind": "reference", "name": mname}]})
            self.keep_inhabitable([p for st_ in self.doc["structures"][-3:] for p in st_["properties"]])
            self.new_structs += [b, mname, s]
            self.edits.append({"edit": "E1-diamond", "structures": [b, mname, s], "property": "(deep mixin)"})
            self.counter += 1
            self.doc["requests"].append({"method": f"vf/deepMixin{self.counter}", "messageDirection": "clientToServer", "params": {"kind": "reference", "name": s},
                                         "result": {"kind": "or", "items": [{"kind": "reference", "name": s}, {"kind": "base", "name": "null"}]}})
            self.edits.append({"edit": "E6-new-message", "method": f"vf/deepMixin{self.counter}", "request": True})
            return
        if focus == "confusing-message-names":
            self.e_new_message(is_request=False, with_type_name=True, type_name_infix="Request")
            self.e_new_message(is_request=True, with_type_name=True, type_name_infix="Notification")
            return self.e_new_message(is_request=False, with_type_name=False, method_word="cancelRequest")
        if focus == "message-regopts-no-params":
            self.e_new_message(is_request=True, registration="own", params=False)
            return self.e_new_message(is_request=False, registration="own", params=False)
        if focus == "selection-range-additions":
            # SelectionRange is emitted by hand-written code in the rust plugin: new properties of the awkward kinds
            sr = [s for s in self.doc["structures"] if s["name"] == "SelectionRange"]
            if sr:
                S_, N_ = {"kind": "base", "name": "string"}, {"kind": "base", "name": "null"}
                adds = [{"name": "type", "type": S_, "optional": True},
                        {"name": "vfOrigin", "type": {"kind": "reference", "name": "SelectionRangeParams"}, "optional": True},
                        {"name": "vfNote", "type": {"kind": "or", "items": [S_, N_]}},
                        {"name": "vfSiblings", "type": {"kind": "array", "element": {"kind": "reference", "name": "SelectionRange"}}, "optional": True}]
                for p_ in adds:
                    if all(q["name"] != p_["name"] for q in sr[0]["properties"]) and any(s["name"] == "SelectionRangeParams" for s in self.doc["structures"]):
                        sr[0]["properties"].append(p_)
                        self.edits.append({"edit": "E2-new-property", "structure": "SelectionRange", "property": p_["name"], "type": p_["type"], "optional": bool(p_.get("optional"))})
            # the structures some plugin writes by hand (SelectionRange in rust, InitializedParams in dotnet) get a new parent:
            # what they inherit has to appear as for any other structure
            mix = self.fresh_type_name("VfSpecialMixin")
            q1, q2 = "vfMixedIn", "vfMixedInToo"
            self.doc["structures"].append({"name": mix, "properties": [{"name": q1, "type": {"kind": "base", "name": "string"}, "optional": True},
                                                                        {"name": q2, "type": {"kind": "or", "items": [{"kind": "base", "name": "uinteger"}, {"kind": "base", "name": "null"}]}}]})
            self.new_structs.append(mix)
            self.edits.append({"edit": "E1-new-structure", "name": mix, "properties": [q1, q2]})
            for target, how in (("SelectionRange", "mixins"), ("InitializedParams", "extends")):
                st_ = [s_ for s_ in self.doc["structures"] if s_["name"] == target]
                if st_ and not st_[0].get(how):
                    st_[0][how] = [{"kind": "reference", "name": mix}]
                    self.edits.append({"edit": "E7-new-parent", "structure": target, how: mix})
            return
        if focus == "nested-literals":
            # literals inside literals (as LSP 3.17 had under ServerCapabilities.workspace): the inner literal is the first
            # required property of the outer one, is called like it, or has a short name - the cases in which name builders
            # that look at property names give both levels one name
            S_, U_ = {"kind": "base", "name": "string"}, {"kind": "base", "name": "uinteger"}
            L_ = lambda props: {"kind": "literal", "value": {"properties": props}}   # noqa: E731
            owner = self.fresh_type_name("VfNest")
            local = {"entries", "p", "detail", "count", "inner", "leaf", "tag", "text", "q"}
            w1 = self.fresh_prop_name(local)
            local.add(w1)
            w2 = self.fresh_prop_name(local)
            props = [
                {"name": "entries", "type": {"kind": "array", "element": L_([{"name": "detail", "type": L_([{"name": "text", "type": S_}])}, {"name": "count", "type": U_}])}},
                {"name": "p", "type": L_([{"name": "p", "type": L_([{"name": "q", "type": S_}])}]), "optional": True},
                {"name": w1, "type": L_([{"name": w1, "type": L_([{"name": w1, "type": S_}, {"name": w2, "type": U_, "optional": True}])}]), "optional": True},
                {"name": w2, "type": {"kind": "or", "items": [L_([{"name": "inner", "type": L_([{"name": "leaf", "type": S_}]), "optional": True}, {"name": "tag", "type": S_}]), {"kind": "base", "name": "null"}]}},
            ]
            self.doc["structures"].append({"name": owner, "properties": props})
            self.new_structs.append(owner)
            self.edits.append({"edit": "E1-new-structure", "name": owner, "properties": [p_["name"] for p_ in props]})
            self.counter += 1
            self.doc["notifications"].append({"method": f"vf/nested{self.counter}", "messageDirection": "both", "params": {"kind": "reference", "name": owner}})
            self.edits.append({"edit": "E6-new-message", "method": f"vf/nested{self.counter}", "request": False})
            # a structure that comes back to itself through an *optional* property of a required literal; it is the params of
            # a notification and the result of a request (so that test vectors must exist for both)
            tree = self.fresh_type_name("VfTree")
            self.doc["structures"].append({"name": tree, "properties": [
                {"name": "label", "type": S_},
                {"name": "meta", "type": L_([{"name": "parent", "type": {"kind": "reference", "name": tree}, "optional": True}, {"name": "depth", "type": U_}])}]})
            self.new_structs.append(tree)
            self.edits.append({"edit": "E1-new-structure", "name": tree, "properties": ["label", "meta"]})
            self.counter += 1
            self.doc["notifications"].append({"method": f"vf/treeChanged{self.counter}", "messageDirection": "both", "params": {"kind": "reference", "name": tree}})
            self.doc["requests"].append({"method": f"vf/treeResolve{self.counter}", "messageDirection": "clientToServer", "params": {"kind": "reference", "name": tree},
                                         "result": {"kind": "reference", "name": tree}})
            self.edits.append({"edit": "E6-new-message", "method": f"vf/treeChanged{self.counter}", "request": False})
            self.edits.append({"edit": "E6-new-message", "method": f"vf/treeResolve{self.counter}", "request": True})
            return
        if focus == "result-name-collision":
            # a request `<X>Request` whose result is built from a declared structure called `<X>Result` (the name the python
            # plugin gives the alias it invents for a composite result)
            S_ = {"kind": "base", "name": "string"}
            for shape in ("array", "array-or-null"):
                stem = self.fresh_type_name("VfHunt")
                pn, rn = stem + "Params", stem + "Result"
                if pn in self.taken_types or rn in self.taken_types:
                    continue
                self.taken_types |= {pn, rn}
                local: set = set()
                self.doc["structures"].append({"name": pn, "properties": [self.new_property(local, force="base", optional=False)]})
                self.doc["structures"].append({"name": rn, "properties": [{"name": "vfItem", "type": S_}, self.new_property(local)]})
                self.keep_inhabitable(self.doc["structures"][-1]["properties"])
                self.new_structs += [pn, rn]
                arr = {"kind": "array", "element": {"kind": "reference", "name": rn}}
                result = arr if shape == "array" else {"kind": "or", "items": [arr, {"kind": "base", "name": "null"}]}
                self.counter += 1
                msg = {"method": f"vf/hunt{self.counter}", "typeName": stem + "Request", "messageDirection": "clientToServer",
                       "params": {"kind": "reference", "name": pn}, "result": result}
                self.doc["requests"].append(msg)
                self.edits.append({"edit": "E1-new-structure", "name": pn, "properties": [p_["name"] for p_ in self.doc["structures"][-2]["properties"]]})
                self.edits.append({"edit": "E1-new-structure", "name": rn, "properties": [p_["name"] for p_ in self.doc["structures"][-1]["properties"]]})
                self.edits.append({"edit": "E5-new-request", "method": msg["method"], "typeName": msg["typeName"], "params": msg["params"], "result": result, "registrationOptions": None})
            return
        if focus == "short-names":
            # structures and properties of three letters or fewer (name builders that drop short words)
            L_ = lambda n: {"kind": "literal", "value": {"properties": [{"name": n, "type": {"kind": "base", "name": "string"}}]}}   # noqa: E731
            for sname, pname in (("Vfa", "xyz"), ("Vb", "id"), ("VfShortInfo", "ab")):
                if sname in self.taken_types:
                    continue
                self.taken_types.add(sname)
                self.doc["structures"].append({"name": sname, "properties": [{"name": pname, "type": L_("vfA")}, {"name": "q", "type": {"kind": "base", "name": "uinteger"}, "optional": True}]})
                self.new_structs.append(sname)
                self.edits.append({"edit": "E1-new-structure", "name": sname, "properties": [pname, "q"]})
            # a long owner with short literal-typed properties; the same on a structure other structures mix in
            N_ = {"kind": "base", "name": "null"}
            owner = self.fresh_type_name("VfLongOwner")
            self.doc["structures"].append({"name": owner, "properties": [{"name": "abc", "type": L_("vfB")},
                                                                          {"name": "xy", "type": {"kind": "or", "items": [N_, L_("vfC")]}, "optional": True}]})
            self.new_structs.append(owner)
            self.edits.append({"edit": "E1-new-structure", "name": owner, "properties": ["abc", "xy"]})
            mixed_in = sorted({r["name"] for s_ in self.doc["structures"] for r in s_.get("mixins", []) if r["name"] in self.base_structs}
                              - self.union_alternatives)   # (property edits stay off the alternatives of general unions and their ancestors)
            if mixed_in:
                target = self.pick(mixed_in)
                st_ = next(s_ for s_ in self.doc["structures"] if s_["name"] == target)
                users = [s_ for s_ in self.doc["structures"] if any(r["name"] == target for r in s_.get("mixins", []))]
                pname = next((n for n in ("uv", "rst", "o") if all(n not in {q["name"] for q in u.get("properties", [])} for u in users + [st_])), None)
                if pname is not None:
                    ty = {"kind": "or", "items": [N_, L_("vfD")]}
                    st_["properties"].append({"name": pname, "type": ty, "optional": True})
                    self.edits.append({"edit": "E2-new-property", "structure": target, "property": pname, "optional": True, "type": ty})
            return
        if focus == "substring-names":
            # a structure with exactly one "special" property (null-admitting, or a string literal) and optional properties whose
            # names are parts of that property's name - in camelCase and, after the plugin's renaming, in snake_case
            S_, N_ = {"kind": "base", "name": "string"}, {"kind": "base", "name": "null"}
            specs = [("documentSelector", {"kind": "or", "items": [S_, N_]}, ["document", "selector", "doc"]),
                     ("activeParameter", {"kind": "or", "items": [{"kind": "base", "name": "uinteger"}, N_]}, ["active", "parameter", "param"]),
                     ("snapshotKind", {"kind": "stringLiteral", "value": "vfSnapshot"}, ["snapshot", "kind", "shot"]),
                     ("workspaceFolders", {"kind": "or", "items": [{"kind": "array", "element": S_}, N_]}, ["workspace", "folders", "work"])]
            made = []
            for special, ty, parts in specs:
                name = self.fresh_type_name("VfPart")
                props = [{"name": special, "type": ty}] + [{"name": q, "type": S_, "optional": True} for q in parts]
                props = [p_ for p_ in props if p_["name"] not in self.kw_names]
                self.doc["structures"].append({"name": name, "properties": props})
                self.new_structs.append(name)
                made.append(name)
                self.edits.append({"edit": "E1-new-structure", "name": name, "properties": [p_["name"] for p_ in props]})
            self.counter += 1
            self.doc["notifications"].append({"method": f"vf/parts{self.counter}", "messageDirection": "both", "params": {"kind": "reference", "name": made[0]}})
            self.edits.append({"edit": "E6-new-message", "method": f"vf/parts{self.counter}", "request": False})
            return
        if focus == "digit-names":
            # property names whose words end in digits or are one letter long (utf8Offset, is64Bit, point3D, xRange)
            name = self.fresh_type_name("VfDigits")
            S_, N_ = {"kind": "base", "name": "string"}, {"kind": "base", "name": "null"}
            props = [{"name": "utf8Offset", "type": {"kind": "base", "name": "uinteger"}},
                     {"name": "utf16Offset", "type": {"kind": "base", "name": "uinteger"}, "optional": True},
                     {"name": "is64Bit", "type": {"kind": "base", "name": "boolean"}, "optional": True},
                     {"name": "sha256Digest", "type": {"kind": "or", "items": [S_, N_]}},
                     {"name": "point3D", "type": {"kind": "tuple", "items": [{"kind": "base", "name": "integer"}] * 3}, "optional": True},
                     {"name": "xRange", "type": {"kind": "reference", "name": "Range"}, "optional": True},
                     {"name": "v2Beta", "type": {"kind": "stringLiteral", "value": "v2"}},
                     {"name": "base64", "type": S_, "optional": True}]
            props = [p_ for p_ in props if p_["name"] not in self.taken_props]
            self.doc["structures"].append({"name": name, "properties": props})
            self.new_structs.append(name)
            self.counter += 1
            self.doc["notifications"].append({"method": f"vf/digits{self.counter}", "messageDirection": "both", "params": {"kind": "reference", "name": name}})
            self.edits.append({"edit": "E1-new-structure", "name": name, "properties": [p_["name"] for p_ in props]})
            self.edits.append({"edit": "E6-new-message", "method": f"vf/digits{self.counter}", "request": False})
            return
        if focus == "case-only-names":
            # names that differ from existing ones in letter case only (one file on a case-insensitive file system)
            structs = [s["name"] for s in self.doc["structures"] if sum(c.isupper() for c in s["name"]) >= 2 and not s["name"].startswith("_")]
            sname = self.pick(structs)
            lowered = lambda n: n[0] + n[1:].lower()            # noqa: E731  TextEdit -> Textedit
            made = []
            if lowered(sname) not in self.taken_types:
                self.doc["structures"].append({"name": lowered(sname), "properties": [{"name": "vfCaseWord", "type": {"kind": "base", "name": "string"}}]})
                self.taken_types.add(lowered(sname)); self.new_structs.append(lowered(sname)); made.append(lowered(sname))
            other = self.pick([n for n in structs if n != sname])
            if lowered(other) not in self.taken_types:
                self.doc["enumerations"].append({"name": lowered(other), "type": {"kind": "base", "name": "string"}, "values": [{"name": "One", "value": "one"}, {"name": "Two", "value": "two"}]})
                self.taken_types.add(lowered(other)); self.new_enums.append(lowered(other)); self.closed_enums.append(lowered(other))
                self.edits.append({"edit": "E3-new-enum", "name": lowered(other), "base": "string", "values": ["one", "two"]})
            typed = [m for m in self.doc["notifications"] if m.get("typeName") and sum(c.isupper() for c in m["typeName"]) >= 3]
            user = self.fresh_type_name("VfUsesCase")
            props = [{"name": "vfExact", "type": {"kind": "reference", "name": sname}, "optional": True}]
            if made:
                props.append({"name": "vfCased", "type": {"kind": "reference", "name": made[0]}})
            if lowered(other) in self.new_enums:
                props.append({"name": "vfCasedKind", "type": {"kind": "reference", "name": lowered(other)}, "optional": True})
            self.doc["structures"].append({"name": user, "properties": props})
            self.new_structs.append(user)
            self.counter += 1
            note = {"method": f"vf/caseOnly{self.counter}", "messageDirection": "both", "params": {"kind": "reference", "name": user}}
            if typed:
                tn = self.pick(typed)["typeName"]
                cased = tn[0] + tn[1:4].lower() + tn[4:]
                if cased != tn and cased not in self.taken_types:
                    note["typeName"] = cased
                    self.taken_types.add(cased)
            self.doc["notifications"].append(note)
            for n in made + [user]:
                self.edits.append({"edit": "E1-new-structure", "name": n, "properties": []})
            self.edits.append({"edit": "E6-new-message", "method": note["method"], "request": False})
            return
        if focus == "mutual-recursion":
            # two structures that refer to each other: one link is a required plain reference, the way back goes through an
            # array / optional / nullable / map, so the pair is inhabitable
            a, b = self.fresh_type_name("VfNode"), self.fresh_type_name("VfEdge")
            back = self.pick(["array", "optional", "ornull", "map"])
            ra, rb = {"kind": "reference", "name": a}, {"kind": "reference", "name": b}
            back_prop = {"array": {"name": "vfCalls", "type": {"kind": "array", "element": rb}},
                         "optional": {"name": "vfCalls", "type": rb, "optional": True},
                         "ornull": {"name": "vfCalls", "type": {"kind": "or", "items": [rb, {"kind": "base", "name": "null"}]}},
                         "map": {"name": "vfCalls", "type": {"kind": "map", "key": {"kind": "base", "name": "string"}, "value": rb}}}[back]
            self.doc["structures"].append({"name": a, "properties": [{"name": "vfName", "type": {"kind": "base", "name": "string"}}, back_prop]})
            self.doc["structures"].append({"name": b, "properties": [{"name": "vfTarget", "type": ra}, {"name": "vfWeight", "type": {"kind": "base", "name": "uinteger"}, "optional": True}]})
            self.new_structs += [a, b]
            self.counter += 1
            self.doc["requests"].append({"method": f"vf/callGraph{self.counter}", "messageDirection": "clientToServer", "params": {"kind": "reference", "name": b},
                                         "result": {"kind": "or", "items": [ra, {"kind": "base", "name": "null"}]}})
            self.edits.append({"edit": "E1-new-structure", "name": a, "properties": ["vfName", "vfCalls"]})
            self.edits.append({"edit": "E1-new-structure", "name": b, "properties": ["vfTarget", "vfWeight"]})
            self.edits.append({"edit": "E6-new-message", "method": f"vf/callGraph{self.counter}", "request": True})
            return
        if focus == "big-declarations":
            # sizes: a structure with many properties, an enumeration with many values, a long extends chain
            name = self.fresh_type_name("VfWide")
            local: set = set()
            props = []
            for i in range(90):
                props.append({"name": f"vfWide{WORDS_U[i % 10]}{WORDS_U[(i // 10) % 10]}", "type": {"kind": "base", "name": ["string", "uinteger", "boolean", "integer"][i % 4]}})
                if i % 2:
                    props[-1]["optional"] = True
            self.doc["structures"].append({"name": name, "properties": props})
            ename = self.fresh_type_name("VeWide")
            self.doc["enumerations"].append({"name": ename, "type": {"kind": "base", "name": "uinteger"},
                                             "values": [{"name": f"V{i}", "value": i * 7} for i in range(400)]})
            self.new_enums.append(ename)
            self.closed_enums.append(ename)
            # (the chain hangs off a small structure: the dotnet plugin copies every inherited property once per level)
            root_small = self.fresh_type_name("VfChainRoot")
            self.doc["structures"].append({"name": root_small, "properties": [{"name": "vfRootWord", "type": {"kind": "base", "name": "string"}}]})
            wide_child = self.fresh_type_name("VfWideChild")
            self.doc["structures"].append({"name": wide_child, "extends": [{"kind": "reference", "name": name}],
                                           "properties": [{"name": "vfOwnKind", "type": {"kind": "reference", "name": ename}}]})
            self.new_structs += [name, wide_child]
            chain = [root_small]
            for i in range(10):
                child = self.fresh_type_name("VfChain")
                self.doc["structures"].append({"name": child, "extends": [{"kind": "reference", "name": chain[-1]}],
                                               "properties": [{"name": f"vfLevel{WORDS_U[i]}", "type": {"kind": "reference", "name": ename}, "optional": bool(i % 2)}]})
                chain.append(child)
            self.new_structs += chain
            self.counter += 1
            self.doc["notifications"].append({"method": f"vf/wide{self.counter}", "messageDirection": "both", "params": {"kind": "reference", "name": chain[-1]}})
            self.edits.append({"edit": "E1-new-structure", "name": name, "properties": [p["name"] for p in props][:5]})
            self.edits.append({"edit": "E1-new-structure", "name": wide_child, "properties": ["vfOwnKind"]})
            self.edits.append({"edit": "E3-new-enum", "name": ename, "base": "uinteger", "values": [0, 7, 14]})
            for c in chain[1:]:
                self.edits.append({"edit": "E1-new-structure", "name": c, "properties": []})
            self.edits.append({"edit": "E6-new-message", "method": f"vf/wide{self.counter}", "request": False})
            return
        if focus == "literal-name-collision":
            # owner and property names concatenate to the same words: VfAb.cdEf / VfAbCd.ef (plain, array element, union member)
            def lit(pname: str, base_: str) -> dict:
                return {"kind": "literal", "value": {"properties": [{"name": pname, "type": {"kind": "base", "name": base_}}]}}
            w1, w2, w3 = self.pick(WORDS_U), self.pick(WORDS_U), self.pick(WORDS_U)
            stem = self.fresh_type_name("Vf")
            a, b = stem, stem + w1
            self.taken_types.add(b)
            wrap = self.pick(["plain", "array", "ornull"])
            def shaped(t: dict) -> dict:
                if wrap == "array":
                    return {"kind": "array", "element": t}
                if wrap == "ornull":
                    return {"kind": "or", "items": [t, {"kind": "base", "name": "null"}]}
                return t
            pa = {"name": w1[0].lower() + w1[1:] + w2 + w3, "type": shaped(lit("vfFirst", "string"))}
            pb = {"name": w2[0].lower() + w2[1:] + w3, "type": shaped(lit("vfSecond", "integer"))}
            if self.draw(st.booleans()):
                pb["optional"] = True
            self.doc["structures"].append({"name": a, "properties": [pa]})
            self.doc["structures"].append({"name": b, "properties": [pb]})
            self.new_structs += [a, b]
            self.edits.append({"edit": "E1-new-structure", "name": a, "properties": [pa["name"]]})
            self.edits.append({"edit": "E1-new-structure", "name": b, "properties": [pb["name"]]})
            # ... and a *declared* structure whose name is the one a plugin gives a literal's class (<Owner><Property>[Type]),
            # declared before or after the owner of the literal
            owner = self.fresh_type_name("VfWidget")
            for decl in (owner + "SizeType", owner + "Size"):
                if decl in self.taken_types:
                    return
            self.taken_types |= {owner + "SizeType", owner + "Size"}
            o_ = {"name": owner, "properties": [{"name": "size", "type": shaped(lit("vfAlpha", "uinteger"))}]}
            d1 = {"name": owner + "SizeType", "properties": [{"name": "vfBeta", "type": {"kind": "base", "name": "string"}}]}
            d2 = {"name": owner + "Size", "properties": [{"name": "vfGamma", "type": {"kind": "base", "name": "boolean"}}]}
            seq = [o_, d1, d2] if self.draw(st.booleans()) else [d1, d2, o_]
            for s_ in seq:
                self.doc["structures"].append(s_)
                self.new_structs.append(s_["name"])
                self.edits.append({"edit": "E1-new-structure", "name": s_["name"], "properties": [p_["name"] for p_ in s_["properties"]]})
            # ... or like the name a plugin gives the structure itself (dotnet writes `Command` as `CommandAction`)
            cmd = [s_ for s_ in self.doc["structures"] if s_["name"] == "Command"]
            # (Command is an alternative of `Command | CodeAction`; this one optional property does not touch what the hook looks at)
            if cmd and all(q["name"] != "action" for q in cmd[0]["properties"]):
                ty = lit("vfVerb", "string")
                cmd[0]["properties"].append({"name": "action", "type": ty, "optional": True})
                self.edits.append({"edit": "E2-new-property", "structure": "Command", "property": "action", "optional": True, "type": ty})
            # ... and a literal whose class would be called like the class of a message: <Stem>.response next to <Stem>Request
            stems = sorted(({m["typeName"][:-7] for m in self.doc["requests"] if m.get("typeName", "").endswith("Request")} & set(self.base_structs)) - self.union_alternatives)
            stems = [x for x in stems if all(q["name"] != "response" for st_ in self.doc["structures"] if st_["name"] == x for q in st_["properties"])]
            if stems:
                target = self.pick(stems)
                st_ = next(s_ for s_ in self.doc["structures"] if s_["name"] == target)
                ty = lit("vfVerbose", "boolean")
                st_["properties"].append({"name": "response", "type": ty, "optional": True})
                self.edits.append({"edit": "E2-new-property", "structure": target, "property": "response", "optional": True, "type": ty})
            return
        if focus == "method-mentions-request":
            # messages without typeName whose method carries the words the plugins append as suffixes
            for word, is_req in (("requestAlpha", True), ("alphaRequestBeta", True), ("notificationGamma", False), ("requestDelta", False), ("notificationOmega", True)):
                self.e_new_message(with_type_name=False, is_request=is_req, method_word=word, params=True)
            return
        if focus == "declares-response-error":
            # the metamodel may come to declare the base protocol's ResponseError itself (same shape as the class every
            # plugin already ships by hand)
            if not any(s["name"] == "ResponseError" for s in self.doc["structures"]):
                self.doc["structures"].append({"name": "ResponseError", "properties": [
                    {"name": "code", "type": {"kind": "base", "name": "integer"}},
                    {"name": "message", "type": {"kind": "base", "name": "string"}},
                    {"name": "data", "type": {"kind": "reference", "name": "LSPAny"}, "optional": True}]})
                self.edits.append({"edit": "E1-new-structure", "name": "ResponseError", "properties": ["code", "message", "data"]})
            return
        if focus == "alias-shapes":
            # beyond the listed edit family (it names no alias edits): declared-only aliases of the shapes the committed
            # model already uses - T, T[], T | T[] (either order, T a base type or a structure), a wider union
            B = lambda n: {"kind": "base", "name": n}                      # noqa: E731
            R = lambda n: {"kind": "reference", "name": n}                 # noqa: E731
            ARR = lambda t: {"kind": "array", "element": t}                # noqa: E731
            OR = lambda *ts: {"kind": "or", "items": [copy.deepcopy(t) for t in ts]}   # noqa: E731
            b1, b2 = self.pick(["string", "DocumentUri", "uinteger", "integer"]), self.pick(["string", "uinteger", "boolean"])
            s1 = self.pick([s for s in self.base_structs if s in ("Range", "Position", "Location", "TextEdit", "Command", "Diagnostic")] or self.base_structs)
            shapes = [B(b1), OR(B(b1), ARR(B(b1))), OR(ARR(B(b2)), B(b2)), OR(R(s1), ARR(R(s1))), R(s1), ARR(R(s1)), ARR(B(b2)),
                      OR(B("string"), B("integer"), R(s1))]
            names = []
            for t in shapes:
                name = self.fresh_type_name("Va")
                decl = {"name": name, "type": t}
                if self.draw(st.integers(0, 2)) == 0:
                    self.mark(decl)
                self.doc["typeAliases"].append(decl)
                names.append(name)
            self.edits.append({"edit": "E9-new-alias", "names": names})
            return
        if focus == "marked-everything":
            # every kind of declaration that can carry a deprecated / since mark gets one, with every free text of the pool
            texts = list(MARK_TEXTS)
            k = self.draw(st.integers(0, len(texts) - 1))
            nxt = [k]

            def text() -> str:
                nxt[0] += 1
                return texts[nxt[0] % len(texts)]

            sname, ename = self.fresh_type_name("VfMarked"), self.fresh_type_name("VeMarked")
            local: set = set()
            props = []
            for i in range(len(texts)):
                p = self.new_property(local, depth=1, allow_literal=False, force="base", optional=bool(i % 2))
                local.add(p["name"])
                p["deprecated"], p["since"] = text(), text()
                if i % 3 == 0:
                    p["proposed"] = True   # required (even i) and optional (odd i) properties alike
                props.append(p)
            # anonymous literals carry their marks on the literal itself (`value`), in every position a literal can take
            S_ = {"kind": "base", "name": "string"}
            lit = lambda pn, **marks: {"kind": "literal", "value": {"properties": [{"name": pn, "type": S_}], **marks}}   # noqa: E731
            props.append({"name": "vfLitPlain", "type": lit("vfA", proposed=True, documentation="A literal.\n@since 3.18.0")})
            props.append({"name": "vfLitArray", "type": {"kind": "array", "element": lit("vfB", deprecated=text(), since=text())}, "optional": True})
            props.append({"name": "vfLitOrNull", "type": {"kind": "or", "items": [lit("vfC", since="3.17.0", sinceTags=["3.17.0", text()]), {"kind": "base", "name": "null"}]}})
            self.doc["structures"].append({"name": sname, "properties": props, "deprecated": text(), "since": text(), "sinceTags": ["3.17.0", text()]})
            self.new_structs.append(sname)
            vals = [{"name": w, "value": w.lower(), "deprecated": text(), "since": text()} for w in WORDS_U[:4]]
            self.doc["enumerations"].append({"name": ename, "type": {"kind": "base", "name": "string"}, "values": vals, "deprecated": text(), "since": text()})
            self.new_enums.append(ename)
            self.counter += 1
            note = {"method": f"vf/marked{self.counter}", "messageDirection": "both", "params": {"kind": "reference", "name": sname},
                    "deprecated": text(), "since": text()}
            req = {"method": f"vf/markedRequest{self.counter}", "messageDirection": "clientToServer", "params": {"kind": "reference", "name": sname},
                   "result": {"kind": "base", "name": "null"}, "deprecated": text(), "since": text(), "typeName": self.fresh_type_name("Vm") + "Request"}
            self.doc["notifications"].append(note)
            self.doc["requests"].append(req)
            self.edits.append({"edit": "E1-new-structure", "name": sname, "properties": [p["name"] for p in props]})
            self.edits.append({"edit": "E3-new-enum", "name": ename, "base": "string", "values": [v["value"] for v in vals]})
            self.edits.append({"edit": "E6-new-message", "method": note["method"], "request": False})
            self.edits.append({"edit": "E6-new-message", "method": req["method"], "request": True})
            return
        if focus == "explicit-closed-enum":
            closed = [e for e in self.doc["enumerations"] if "supportsCustomValues" not in e and e["name"] != "CompletionItemKind"]
            for e in closed[:: max(1, len(closed) // 4)]:
                e["supportsCustomValues"] = False
            self.edits.append({"edit": "E6-explicit-closed", "enums": [e["name"] for e in closed[:: max(1, len(closed) // 4)]]})
            return
        if focus == "shared-registration-method":
            self.e_new_message(is_request=True, registration="shared")
            return self.e_new_message(registration="shared")
        if focus in ("message-no-typename", "request-no-typename"):
            return self.e_new_message(with_type_name=False, is_request=True if focus.startswith("request") else None)
        if focus == "rust-keyword-name":
            return self.e_new_property(keyword=True, keyword_pool=self.RUST_AND_PYTHON_KEYWORDS)
        if focus == "base-regexp":
            return self.e_new_property(force="base", base_name="RegExp")
        if focus == "empty-struct-property":
            empties = [s for s in self.doc["structures"] if not s["properties"] and not s.get("extends") and not s.get("mixins")
                       and s["name"] not in self.union_alternatives]
            return self.e_new_property(target=self.pick(empties)["name"]) if empties else self.e_new_property()
        if focus == "enum-value":
            self.e_new_enum()
            return self.e_new_enum_value()
        if focus == "remove-optional":
            return self.e_remove_optional()
        if focus == "new-structure":
            return self.e_new_structure()
        return self.e_new_property(force=None if focus == "keyword-name" else focus, keyword=(focus == "keyword-name"),
                                   optional=False if focus.startswith("ornull") else None)

    def e_new_property(self, force: Optional[str] = None, keyword: bool = False, optional: Optional[bool] = None,
                       keyword_pool: Optional[List[str]] = None, base_name: Optional[str] = None, target: Optional[str] = None) -> None:
        cands = [s for s in self.doc["structures"] if not s["name"].startswith("_") and s["name"] != "LSPObject"
                 and s["name"] not in self.union_alternatives]
        s = self.pick(cands) if target is None else [x for x in self.doc["structures"] if x["name"] == target][0]
        m = Model(self.doc)
        local = {p["name"] for p in m.flat_props(s["name"])}
        # also the properties of every structure that inherits from s
        for other in self.doc["structures"]:
            if s["name"] in m.ancestors(other["name"]):
                local |= {p["name"] for p in m.flat_props(other["name"])}
        p = self.new_property(local, force=force, optional=optional)
        if base_name:
            p["type"] = {"kind": "base", "name": base_name}
        if keyword:
            free = [k for k in (keyword_pool or self.kw_names) if k not in self.taken_props and k not in local]
            if free:
                p["name"] = self.pick(free)
        s["properties"].append(p)
        self.keep_inhabitable([p])
        self.edits.append({"edit": "E2-new-property", "structure": s["name"], "property": p["name"], "type": p["type"], "optional": bool(p.get("optional"))})

    def e_new_enum(self) -> None:
        name = self.fresh_type_name("Ve")
        base = self.pick(["string", "integer", "uinteger"])
        n = self.draw(st.integers(1, 4))
        values = []
        for i in range(n):
            vname = self.pick(WORDS_U) + str(i)
            if base == "string":
                v: Any = self.pick(WORDS_L) + str(i)
                if self.draw(st.integers(0, 4)) == 0:
                    v += self.pick(["é", "\U0001F600", "-x.y", " z", "日本"])
            elif base == "uinteger":
                v = i + self.draw(st.integers(0, 3)) * 10
            else:
                v = (i + 1) * self.pick([1, -1, 100])
            item = {"name": vname, "value": v}
            if self.draw(st.integers(0, 5)) == 0:
                self.mark(item)
            values.append(item)
        # distinct values
        seen = set()
        values = [x for x in values if not (x["value"] in seen or seen.add(x["value"]))]
        e = {"name": name, "type": {"kind": "base", "name": base}, "values": values}
        if self.draw(st.integers(0, 2)) == 0:
            e["supportsCustomValues"] = False  # the default, spelled out
        self.doc["enumerations"].append(e)
        self.new_enums.append(name)
        self.edits.append({"edit": "E3-new-enum", "name": name, "base": base, "values": [x["value"] for x in values]})

    def e_new_enum_value(self) -> None:
        e = self.pick(self.doc["enumerations"])
        base = e["type"]["name"]
        existing = [v["value"] for v in e["values"]]
        names = {v["name"] for v in e["values"]}
        if base == "string":
            v: Any = "vf" + self.pick(WORDS_U) + str(len(existing))
        else:
            v = max(existing) + 1 + self.draw(st.integers(0, 5))
        vname = "Vf" + self.pick(WORDS_U) + str(len(existing))
        if v in existing or vname in names:
            return
        e["values"].append({"name": vname, "value": v})
        self.edits.append({"edit": "E4-new-enum-value", "enum": e["name"], "value": v})

    def _struct_ref(self) -> dict:
        return {"kind": "reference", "name": self.pick(self.new_structs * 3 + self.base_structs)}

    def e_new_message(self, with_type_name: Optional[bool] = None, is_request: Optional[bool] = None,
                      registration: Optional[str] = None, params: Optional[bool] = None,
                      type_name_infix: str = "", method_word: Optional[str] = None) -> None:
        self.counter += 1
        word = method_word or (self.pick(WORDS_L) + self.pick(WORDS_U))
        if is_request is None:
            is_request = self.draw(st.booleans())
        prefix = self.pick(["vf/", "$/vf", "textDocument/vf", "vf/sub/"])
        method = f"{prefix}{word}{self.counter}" if not prefix.endswith("vf") else f"{prefix}{word.capitalize()}{self.counter}"
        existing = {m["method"].lstrip("$/") for m in self.doc["requests"] + self.doc["notifications"]}
        if method.lstrip("$/") in existing:
            return
        msg: Dict[str, Any] = {"method": method, "messageDirection": self.pick(["clientToServer", "serverToClient", "both"])}
        if with_type_name is None:
            with_type_name = self.draw(st.booleans())
        if with_type_name:
            msg["typeName"] = self.fresh_type_name("Vm") + type_name_infix + ("Request" if is_request else "Notification")
        if params is True or (params is None and self.draw(st.booleans())):
            msg["params"] = self._struct_ref()
        if registration in ("shared", "own") or self.draw(st.integers(0, 2)) == 0:
            pool = [s for s in self.base_structs if s.endswith("RegistrationOptions")] + self.new_structs
            used = {m.get("registrationOptions", {}).get("name") for m in self.doc["requests"] + self.doc["notifications"]
                    if m.get("registrationMethod") == "vf/sharedRegistration"}
            pool2 = [s for s in pool if s not in used] or pool
            msg["registrationOptions"] = {"kind": "reference", "name": self.pick(pool2 if registration == "shared" else pool)}
            # several messages may be registered under one method while declaring different options
            if registration == "shared" or self.draw(st.integers(0, 2)) == 0:
                others = [m["method"] for m in self.doc["requests"] if m.get("registrationOptions")]
                msg["registrationMethod"] = "vf/sharedRegistration" if registration == "shared" else self.pick(others + ["vf/sharedRegistration"])
        if is_request:
            r = self.draw(st.integers(0, 3))
            if r == 0:
                msg["result"] = {"kind": "base", "name": "null"}
            elif r == 1:
                msg["result"] = self._struct_ref()
            elif r == 2:
                msg["result"] = {"kind": "array", "element": self._struct_ref()}
            else:
                msg["result"] = {"kind": "or", "items": [self._struct_ref(), {"kind": "base", "name": "null"}]}
                if self.draw(st.integers(0, 2)) == 0:
                    msg["result"]["items"].reverse()
            if self.draw(st.integers(0, 3)) == 0:
                msg["partialResult"] = {"kind": "array", "element": self._struct_ref()}
            self.doc["requests"].append(msg)
        else:
            self.doc["notifications"].append(msg)
        if self.draw(st.integers(0, 4)) == 0:
            self.mark(msg)
        self.edits.append({"edit": "E5-new-request" if is_request else "E5-new-notification", "method": method,
                           "typeName": msg.get("typeName"), "params": msg.get("params"), "result": msg.get("result"),
                           "registrationOptions": msg.get("registrationOptions")})

    def e_mark(self) -> None:
        kind = self.pick(["structure", "property", "enum", "enumvalue", "alias", "request", "notification"])
        if kind == "structure":
            d = self.pick(self.doc["structures"])
            where = d["name"]
        elif kind == "property":
            s = self.pick([s for s in self.doc["structures"] if s["properties"]])
            d = self.pick(s["properties"])
            where = f"{s['name']}.{d['name']}"
        elif kind == "enum":
            d = self.pick(self.doc["enumerations"])
            where = d["name"]
        elif kind == "enumvalue":
            e = self.pick(self.doc["enumerations"])
            d = self.pick(e["values"])
            where = f"{e['name']}::{d['name']}"
        elif kind == "alias":
            d = self.pick([a for a in self.doc["typeAliases"] if a["name"] not in PAYLOAD_ALIASES])
            where = d["name"]
        elif kind == "request":
            d = self.pick(self.doc["requests"])
            where = d["method"]
        else:
            d = self.pick(self.doc["notifications"])
            where = d["method"]
        marks = self.mark(d)
        self.edits.append({"edit": "E6-mark", "kind": kind, "where": where, "marks": marks})

    def e_remove_optional(self) -> None:
        cands = [(s, p) for s in self.doc["structures"] for p in s["properties"] if p.get("optional")
                 and s["name"] not in self.union_alternatives]
        if not cands:
            return
        s, p = self.pick(cands)
        s["properties"] = [q for q in s["properties"] if q is not p]
        self.edits.append({"edit": "E7-remove-optional", "structure": s["name"], "property": p["name"]})

    def run(self, n_edits: int, focus: Optional[str] = None) -> None:
        for f in (focus.split("+") if focus else []):
            self.e_focus(f)
        table = [
            ("E1", self.e_new_structure), ("E1", self.e_new_structure), ("E2", self.e_new_property), ("E2", self.e_new_property),
            ("E3", self.e_new_enum), ("E4", self.e_new_enum_value), ("E5", self.e_new_message), ("E5", self.e_new_message),
            ("E6", self.e_mark), ("E7", self.e_remove_optional), ("E8", self.e_override_chain),
        ]
        if self.allow is not None:
            table = [t for t in table if t[0] in self.allow]
        for _ in range(n_edits):
            self.pick(table)[1]()
        # the order of declarations carries no meaning: the new structures come in another order (most derived first,
        # shuffled), and sometimes in front of the existing ones
        base_n = len(self.base_structs_decl)
        new = self.doc["structures"][base_n:]
        if len(new) > 1 and "diamond" not in (focus or ""):   # (the diamond focus fixes its own order: most derived first)
            how = self.draw(st.integers(0, 3))
            if how == 1:
                new = list(reversed(new))
            elif how == 2:
                new = [new[i] for i in self.draw(st.permutations(list(range(len(new)))))]
            elif how == 3:
                new = list(reversed(new))
                self.doc["structures"] = new[: len(new) // 2] + self.doc["structures"][:base_n] + new[len(new) // 2:]
                new = None
            if new is not None:
                self.doc["structures"] = self.doc["structures"][:base_n] + new


def evolved(base: dict, min_edits: int = 0, max_edits: int = 6, allow: Optional[set] = None, focus: Optional[str] = None) -> st.SearchStrategy:
    """strategy of (document, edit list); the identity (no edit) is included when min_edits == 0."""

    @st.composite
    def _s(draw):
        n = draw(st.integers(min_edits, max_edits))
        ev = Evolver(base, draw, allow)
        ev.run(n, focus)
        if not schema_valid(ev.doc):
            raise HarnessError(f"evolve produced a schema-invalid document: {schema_errors(ev.doc)}; edits {ev.edits}")
        return ev.doc, ev.edits

    return _s()


def structural(edits: List[dict]) -> bool:
    return any(not e["edit"].startswith("E6") for e in edits)
