"""Oracles shared by several properties: JSON equality, the C01 round-trip relation,
the C03 well-typedness walk."""
from __future__ import annotations

import enum
import math
from typing import Any, List, Optional, Tuple

from .refmodel import Model, PAYLOAD_ALIASES, STRING_BASES, snake
from .tvgen import A, L, Mp, N, P, S, T, U, TV, Objects, erase


def is_num(x: Any) -> bool:
    return isinstance(x, (int, float)) and not isinstance(x, bool)


def jeq(a: Any, b: Any) -> bool:
    """JSON equality: numbers numerically, bool never equal to a number, tuple ~ list."""
    if isinstance(a, bool) or isinstance(b, bool):
        return isinstance(a, bool) and isinstance(b, bool) and a == b
    if is_num(a) and is_num(b):
        return a == b
    if isinstance(a, enum.Enum) or isinstance(b, enum.Enum):
        return False  # unstructured output must not leak Enum objects
    if isinstance(a, str) or isinstance(b, str):
        return isinstance(a, str) and isinstance(b, str) and a == b
    if a is None or b is None:
        return a is None and b is None
    if isinstance(a, (list, tuple)) and isinstance(b, (list, tuple)):
        return len(a) == len(b) and all(jeq(x, y) for x, y in zip(a, b))
    if isinstance(a, dict) and isinstance(b, dict):
        return a.keys() == b.keys() and all(jeq(a[k], b[k]) for k in a)
    return False


def jeq_exact(a: Any, b: Any) -> bool:
    """payload equality: as jeq but ints and floats are distinguished too."""
    if is_num(a) and is_num(b):
        return type(a) is type(b) and (a == b)
    if isinstance(a, (list, tuple)) and isinstance(b, (list, tuple)):
        return len(a) == len(b) and all(jeq_exact(x, y) for x, y in zip(a, b))
    if isinstance(a, dict) and isinstance(b, dict):
        return a.keys() == b.keys() and all(jeq_exact(a[k], b[k]) for k in a)
    return jeq(a, b)


Finding = Tuple[str, str, str, str]  # (symptom, locus, ctx, detail); signature = first three


def short(x: Any, n: int = 80) -> str:
    s = repr(x)
    return s if len(s) <= n else s[: n - 3] + "..."


def _special(m: Model, p: dict) -> bool:
    return bool(p["type"]["kind"] == "stringLiteral" or m.admits_null(p["type"]) or p.get("_always"))


def _payload_typed(m, t: dict) -> bool:
    return t["kind"] == "reference" and t["name"] in ("LSPAny", "LSPObject", "LSPArray")


def roundtrip_relation(objects: Objects, o: Any, tv: TV, locus: str = "$", ctx: str = "-", strict: bool = False) -> List[Finding]:
    """o ~ j up to the documented null rule, directed by the reading tv (C01).

    locus: metamodel locus of the position; ctx: innermost enclosing union
    occurrence and the intended alternative ("occ#idx").
    """
    m = objects.model
    out: List[Finding] = []
    if isinstance(tv, U):
        return roundtrip_relation(objects, o, tv.child, locus, f"{tv.occ}#{tv.idx}", strict)
    if isinstance(tv, N):
        if o is not None:
            out.append(("changed", locus, ctx, f"null became {short(o)}"))
        return out
    if isinstance(tv, P):
        if not jeq(o, tv.v):
            out.append(("changed", locus, ctx, f"{short(tv.v)} became {short(o)}"))
        elif isinstance(tv.v, int) and not isinstance(tv.v, bool) and isinstance(o, float) and tv.how != ("base", "decimal"):
            # numerically equal is not enough at an integer position: 5 must not come back as 5.0 (another JSON text)
            out.append(("changed", locus, ctx, f"integer {short(tv.v)} written as {short(o)}"))
        return out
    if isinstance(tv, A):
        if not jeq_exact(o, tv.v):
            out.append(("changed", locus, ctx, f"payload {short(tv.v)} became {short(o)}"))
        return out
    if isinstance(tv, (L, T)):
        if not isinstance(o, (list, tuple)):
            out.append(("changed", locus, ctx, f"array became {type(o).__name__}"))
        elif len(o) != len(tv.items):
            out.append(("changed", locus, ctx, f"array length {len(tv.items)} became {len(o)}"))
        else:
            for i, (x, y) in enumerate(zip(o, tv.items)):
                out.extend(roundtrip_relation(objects, x, y, f"{locus}|[]", ctx, strict))
        return out
    if isinstance(tv, Mp):
        if not isinstance(o, dict):
            out.append(("changed", locus, ctx, f"map became {type(o).__name__}"))
            return out
        if set(o.keys()) != set(tv.items.keys()):
            out.append(("changed", locus, ctx, f"map keys {short(sorted(tv.items))} became {short(sorted(o))}"))
            return out
        for k, v in tv.items.items():
            out.extend(roundtrip_relation(objects, o[k], v, f"{locus}|{{}}", ctx, strict))
        return out
    if isinstance(tv, S):
        if not isinstance(o, dict):
            out.append(("changed", locus, ctx, f"object {tv.key} became {type(o).__name__}"))
            return out
        props = {p["name"]: p for p in objects.props(tv.key)}
        for k, v in tv.props.items():
            p = props[k]
            ploc = objects.prop_locus(tv.key, p)
            if k in o:
                if strict and o[k] is None and erase(v) is None and p.get("optional") and not _special(m, p):
                    out.append(("invented", ploc, ctx, "unset optional property written as null"))
                out.extend(roundtrip_relation(objects, o[k], v, ploc, ctx, strict))
            else:
                if erase(v) is None and p.get("optional") and not _special(m, p):
                    continue  # null == absent for optional non-special properties
                out.append(("lost", ploc, ctx, "property absent after round trip"))
        if strict:
            # exact normal form: special properties are always written
            for k, p in props.items():
                if k not in tv.props and k not in o and _special(m, p):
                    out.append(("lost", objects.prop_locus(tv.key, p), ctx, "always-written property absent"))
        for k in o:
            if k in tv.props:
                continue
            p = props.get(k)
            if o[k] is None:
                # "any other unset optional property is omitted": a null that was not in the input is allowed only where the
                # property admits null / is always written (strict mode: nowhere else; otherwise also at payload-typed
                # properties, where Python has one None for null and absent)
                ok_null = p is not None and (m.admits_null(p["type"]) or p.get("_always"))
                if not ok_null and (strict or p is None or not _payload_typed(m, p["type"])):
                    out.append(("invented", f"{locus}+{k}", ctx, "unset optional property written as null"))
                continue
            if p is not None and p["type"]["kind"] == "stringLiteral" and o[k] == p["type"]["value"]:
                continue
            out.append(("invented", f"{locus}+{k}", ctx, f"property appeared with value {short(o[k])}"))
        return out
    raise TypeError(tv)


# --------------------------------------------------------------------------------
# C03: well-typedness of a structured object, guided by the metamodel type
# --------------------------------------------------------------------------------
class WellTyped:
    def __init__(self, subject):
        self.s = subject
        self.m: Model = subject.model
        self.types = subject.types

    def check_obj(self, obj: Any, key: tuple, j: Any, locus: str, ctx: str = "-", exact_class: bool = True) -> List[Finding]:
        out: List[Finding] = []
        cls = self.s.class_for(key)
        if exact_class:
            if type(obj) is not cls:
                return [("wrong-class", locus, ctx, f"expected {cls.__name__}, got {type(obj).__name__}")]
        elif not isinstance(obj, cls):
            return [("wrong-class", locus, ctx, f"expected instance of {cls.__name__}, got {type(obj).__name__}")]
        saved = self.s.container
        if key[0] == "struct":
            self.s.container = key[1]
        elif key[0] == "and":
            self.s.container = key
        try:
            out.extend(self._check_props(obj, key, j, ctx, cls))
        finally:
            self.s.container = saved
        return out

    def _check_props(self, obj: Any, key: tuple, j: Any, ctx: str, cls: Any) -> List[Finding]:
        out: List[Finding] = []
        for p in self.s.objects.props(key):
            attr = snake(p["name"])
            ploc = self.s.objects.prop_locus(key, p)
            if not hasattr(obj, attr):
                out.append(("wrong-class", ploc, ctx, f"attribute {attr} missing on {cls.__name__}"))
                continue
            v = getattr(obj, attr)
            jsub = j.get(p["name"], _ABSENT) if isinstance(j, dict) else _ABSENT
            if v is None and (p.get("optional") or _special(self.m, p)):
                continue
            if p["type"]["kind"] == "stringLiteral" and jsub is _ABSENT:
                if v != p["type"]["value"]:
                    out.append(("ill-typed", ploc, ctx, f"literal default is {short(v)}"))
                continue
            out.extend(self.check(v, p["type"], jsub, ploc, ctx))
        return out

    def check(self, v: Any, t: dict, j: Any, locus: str, ctx: str = "-") -> List[Finding]:
        """v: python value; t: metamodel type at metamodel locus; j: the JSON it was structured from (or _ABSENT)."""
        k = t["kind"]
        bad = lambda why: [("ill-typed", locus, ctx, why)]
        if k == "base":
            n = t["name"]
            if n in STRING_BASES:
                return [] if isinstance(v, str) else bad(f"expected str, got {type(v).__name__}")
            if n in ("integer", "uinteger"):
                ok = isinstance(v, int) and not isinstance(v, bool)
                return [] if ok else bad(f"expected int, got {type(v).__name__}")
            if n == "decimal":
                return [] if isinstance(v, float) else bad(f"expected float, got {type(v).__name__}")
            if n == "boolean":
                return [] if isinstance(v, bool) else bad(f"expected bool, got {type(v).__name__}")
            if n == "null":
                return [] if v is None else bad(f"expected None, got {type(v).__name__}")
        if k in ("stringLiteral", "integerLiteral", "booleanLiteral"):
            return [] if (type(v) is type(t["value"]) and v == t["value"]) else bad(f"expected literal {t['value']!r}, got {short(v)}")
        if k == "reference":
            n = t["name"]
            if n in PAYLOAD_ALIASES:
                return []
            if n in self.m.enums:
                e = self.m.enums[n]
                ecls = getattr(self.types, n)
                if isinstance(v, ecls):
                    return []
                py = str if e["type"]["name"] == "string" else int
                if isinstance(v, bool) or not isinstance(v, py) or isinstance(v, enum.Enum):
                    return bad(f"expected {n} or {py.__name__}, got {type(v).__name__}")
                if self.m.enum_open(n, True):
                    return []
                if any(v == x["value"] for x in e["values"]):
                    return []
                return bad(f"{short(v)} is not a value of closed enumeration {n}")
            if n in self.m.aliases:
                return self.check(v, self.m.aliases[n]["type"], j, f"alias:{n}", ctx)
            if n in self.m.structs:
                return self.check_obj(v, ("struct", n), j, locus, ctx)
            if n == "ResponseError":
                return self.check_obj(v, ("special", n), j, locus, ctx)
            return bad(f"unknown reference {n}")
        if k == "array":
            if isinstance(v, (str, bytes, dict)) or not hasattr(v, "__iter__") or not hasattr(v, "__len__"):
                return bad(f"expected sequence, got {type(v).__name__}")
            out: List[Finding] = []
            for i, x in enumerate(v):
                js = j[i] if isinstance(j, list) and i < len(j) else _ABSENT
                out.extend(self.check(x, t["element"], js, f"{locus}|[]", ctx))
            return out
        if k == "map":
            if not isinstance(v, dict):
                return bad(f"expected dict, got {type(v).__name__}")
            out = []
            kt = self.m.resolve_alias(t["key"])
            intkey = kt["kind"] == "base" and kt["name"] == "integer"
            enumkey = kt["kind"] == "reference" and kt["name"] in self.m.enums
            for kk, x in v.items():
                jk = kk
                if intkey:
                    if not isinstance(kk, int) or isinstance(kk, bool):
                        out.append(("ill-typed", locus, ctx, f"map key {short(kk)} of an integer-keyed map"))
                    jk = str(kk)
                elif enumkey:
                    out.extend(self.check(kk, kt, _ABSENT, f"{locus}|key", ctx))
                    jk = str(kk.value if isinstance(kk, enum.Enum) else kk)
                elif not isinstance(kk, str):
                    out.append(("ill-typed", locus, ctx, f"map key {short(kk)}"))
                js = j.get(jk, _ABSENT) if isinstance(j, dict) else _ABSENT
                out.extend(self.check(x, t["value"], js, f"{locus}|{{}}", ctx))
            return out
        if k == "tuple":
            if not isinstance(v, tuple) or len(v) != len(t["items"]):
                return bad(f"expected tuple of {len(t['items'])}, got {short(v)}")
            out = []
            for i, (x, it) in enumerate(zip(v, t["items"])):
                js = j[i] if isinstance(j, list) and i < len(j) else _ABSENT
                out.extend(self.check(x, it, js, f"{locus}|{i}", ctx))
            return out
        if k == "or":
            # some alternative for which the input was valid (non-strict) and the object is well typed
            reasons = []
            anyvalid = False
            for i, it in enumerate(t["items"]):
                if j is not _ABSENT and not self.m.valid(j, it, strict=False, python_custom=True):
                    continue
                anyvalid = True
                r = self.check(v, it, j, f"{locus}|{i}", f"{locus}#{i}")
                if not r:
                    return []
                reasons.append(r[0])
            if not anyvalid and j is not _ABSENT:
                return [("harness", locus, ctx, "input valid for no alternative")]
            r0 = reasons[0] if reasons else ("ill-typed", locus, ctx, "no alternative")
            return [(r0[0], locus, ctx, "at union, first valid alternative: " + r0[3])]
        if k == "and":
            return self.check_obj(v, ("and", locus), j, locus, ctx)
        if k == "literal":
            if len(t["value"]["properties"]) == 0:
                return []
            return self.check_obj(v, ("lit", locus), j, locus, ctx)
        raise ValueError(k)


class _Absent:
    def __repr__(self) -> str:
        return "<absent>"


_ABSENT = _Absent()
