"""Driver shared by the properties that quantify over typed values of every root
(C01, C02, C03, C15...): sharding, collect-then-shrink, minimisation, coverage."""
from __future__ import annotations

import collections
import os
import json
from typing import Any, Callable, Dict, Iterator, List, Optional, Tuple

import hypothesis
from hypothesis import HealthCheck, Phase, given, settings

from . import runner, tvgen
from .runner import Ctx, HarnessError, derive_seed
from .subject import Subject
from .tvgen import A, L, Mp, N, P, S, T, U, TV, GenCfg, Stats, erase, to_json

_SUBJECT: Optional[Subject] = None


def subject() -> Subject:
    global _SUBJECT
    if _SUBJECT is None:
        _SUBJECT = Subject.committed()
    return _SUBJECT


def all_roots(model) -> List[tuple]:
    roots: List[tuple] = [("struct", n) for n in model.structs]
    roots += [("alias", n) for n in model.aliases]
    for kind, m in model.messages():
        if kind == "request":
            roots.append(("msg", "request", m["method"]))
            roots.append(("msg", "response", m["method"]))
        else:
            roots.append(("msg", "notification", m["method"]))
        for facet in ("params", "registrationOptions"):
            t = m.get(facet)
            if isinstance(t, dict) and t["kind"] != "reference":
                roots.append(("type", f"{kind}:{m['method']}:{facet}"))
    roots.append(("special", "ResponseError"))
    roots.append(("special", "ResponseErrorMessage"))
    return roots


def root_name(root: tuple) -> str:
    return ":".join(str(x) for x in root)


# --------------------------------------------------------------------------------
# tree minimisation (deterministic; used instead of / after Hypothesis shrinking)
# --------------------------------------------------------------------------------
def _variants(tv: TV, objects) -> Iterator[TV]:
    """Strictly smaller valid trees, one edit each."""
    if isinstance(tv, S):
        optional = {p["name"] for p in objects.props(tv.key) if p.get("optional")}
        for k in list(tv.props):
            if k in optional:
                yield S(tv.key, {a: b for a, b in tv.props.items() if a != k})
        for k, v in tv.props.items():
            for v2 in _variants(v, objects):
                d = dict(tv.props)
                d[k] = v2
                yield S(tv.key, d)
    elif isinstance(tv, L):
        for i in range(len(tv.items)):
            yield L(tv.items[:i] + tv.items[i + 1:])
        for i, v in enumerate(tv.items):
            for v2 in _variants(v, objects):
                yield L(tv.items[:i] + [v2] + tv.items[i + 1:])
    elif isinstance(tv, T):
        for i, v in enumerate(tv.items):
            for v2 in _variants(v, objects):
                yield T(tv.items[:i] + [v2] + tv.items[i + 1:])
    elif isinstance(tv, Mp):
        for k in list(tv.items):
            yield tv.like({a: b for a, b in tv.items.items() if a != k})
        for k, v in tv.items.items():
            for v2 in _variants(v, objects):
                d = dict(tv.items)
                d[k] = v2
                yield tv.like(d)
    elif isinstance(tv, U):
        for v2 in _variants(tv.child, objects):
            yield U(tv.occ, tv.idx, tv.n, v2)
    elif isinstance(tv, A):
        if tv.v not in (None,) and tv.v != {} and tv.v != []:
            if isinstance(tv.v, dict):
                yield A({})
            elif isinstance(tv.v, list):
                yield A([])
    elif isinstance(tv, P):
        if tv.how[0] == "base":
            if isinstance(tv.v, str) and tv.v not in ("", "a"):
                yield P("a", tv.how, tv.member)
            elif isinstance(tv.v, bool):
                pass
            elif isinstance(tv.v, int) and tv.v not in (0, 1):
                yield P(1, tv.how, tv.member)
            elif isinstance(tv.v, float) and tv.v != 0.5:
                yield P(0.5, tv.how, tv.member)


def minimize(tv: TV, objects, still_fails: Callable[[TV], bool], budget: int = 400) -> TV:
    cur = tv
    steps = 0
    progress = True
    while progress and steps < budget:
        progress = False
        for cand in _variants(cur, objects):
            steps += 1
            if steps >= budget:
                break
            try:
                ok = still_fails(cand)
            except Exception:
                ok = False
            if ok:
                cur = cand
                progress = True
                break
    return cur


# --------------------------------------------------------------------------------
# per-shard worker
# --------------------------------------------------------------------------------
class _Found(Exception):
    pass


Body = Callable[[Subject, tuple, TV, Any], List[Tuple[str, str, str, str]]]

_BODIES: Dict[str, Tuple[Body, Callable[[tuple], Optional[GenCfg]], Optional[Callable]]] = {}


def register(prop: str, body: Body, cfg_for: Optional[Callable[[tuple], Optional[GenCfg]]] = None,
             extra: Optional[Callable[[Subject, tuple], Any]] = None) -> None:
    """body(subject, root, tv, extra) -> findings; extra(subject, root) -> strategy of JSON-serialisable extras."""
    _BODIES[prop] = (body, cfg_for or (lambda root: None), extra)


NOTES: collections.Counter = collections.Counter()


def note(key: str) -> None:
    """a property body records that it could not judge a case (shown under case_classes in the evidence)"""
    NOTES[key] += 1


def _worker(args: Tuple[str, List[tuple], int, int, bool, int]) -> dict:
    prop, roots, n_cases, seed, do_shrink, max_new = args
    sub = subject()
    body, cfg_for, extra_for = _BODIES[prop]
    ctx = Ctx(prop, "quick", seed)  # local collector (known-finding matching only)
    res: Dict[str, Any] = {
        "evaluations": 0, "hashes": set(), "unions": collections.Counter(), "samples": [],
        "per_root": {}, "classes": collections.Counter(), "health": [],
    }
    for root in roots:
        rname = root_name(root)
        cfg = cfg_for(root)
        if do_shrink:  # thorough tier: deeper and larger values
            cfg = cfg or GenCfg()
            cfg.max_depth, cfg.max_nodes = 7, 500
        strat = tvgen.value_strategy(sub.objects, root, cfg)
        if extra_for is not None:
            strat = hypothesis.strategies.tuples(strat, extra_for(sub, root))
        else:
            strat = hypothesis.strategies.tuples(strat, hypothesis.strategies.none())
        reported: Dict[tuple, Any] = {}
        state = {"n": 0}

        def run_case(tv: TV, optset: int, extra: Any, count: bool = True) -> List[tuple]:
            fs = body(sub, root, tv, extra)
            if count:
                state["n"] += 1
                res["evaluations"] += 1
                st_ = Stats(tv)
                st_.optional_set = optset
                for u in st_.unions:
                    res["unions"][u] += 1
                cl = res["classes"]
                cl["cases"] += 1
                if st_.unions:
                    cl["crosses_union"] += 1
                if st_.payloads:
                    cl["has_payload"] += 1
                if optset:
                    cl["has_optional_set"] += 1
                if st_.custom_enum:
                    cl["custom_enum_value"] += 1
                if st_.non_ascii:
                    cl["non_ascii_string"] += 1
                if st_.boundary_int:
                    cl["boundary_int"] += 1
                if st_.hetero_arrays:
                    cl["heterogeneous_array"] += 1
                if st_.depth >= 6:
                    cl["depth_ge_6"] += 1
                if st_.nontrivial():
                    h = tvgen.canon_hash([rname, erase(tv)])
                    if h not in res["hashes"]:
                        res["hashes"].add(h)
                        if len(res["samples"]) < 2 and st_.nodes < 40 and len(json.dumps(erase(tv), default=repr)) < 1500:
                            res["samples"].append({"root": rname, "json": erase(tv)})
            return fs

        for attempt in range(max_new + 1):
            target: List[Optional[tuple]] = [None]
            last: List[Any] = [None]

            def prop_body(x):
                (tv, optset), extra = x
                fs = run_case(tv, optset, extra)
                for f in fs:
                    sig = (f[0], f[1], f[2])
                    if sig in reported:
                        continue
                    e = ctx.known.match(sig)
                    if e is not None:
                        ctx.finding(sig, f[3], None)
                        continue
                    if target[0] is None:
                        target[0] = sig
                    if sig == target[0]:
                        last[0] = (tv, f, extra)
                        raise _Found()

            phases = [Phase.generate] + ([Phase.shrink] if do_shrink else [])
            test = hypothesis.seed(derive_seed(seed, rname, attempt))(
                settings(
                    max_examples=n_cases, database=None, deadline=None, report_multiple_bugs=False,
                    phases=phases, suppress_health_check=list(HealthCheck), derandomize=False,
                    verbosity=hypothesis.Verbosity.quiet,
                )(given(strat)(prop_body))
            )
            try:
                test()
            except _Found:
                pass
            except hypothesis.errors.Flaky as e:  # the oracle must be deterministic
                raise HarnessError(f"flaky case at root {rname}: {e}")
            if target[0] is None:
                break
            tv, f, extra = last[0]
            sig = target[0]

            def still(cand: TV) -> bool:
                return any((g[0], g[1], g[2]) == sig for g in body(sub, root, cand, extra))

            tv_min = minimize(tv, sub.objects, still)
            fmin = [g for g in body(sub, root, tv_min, extra) if (g[0], g[1], g[2]) == sig]
            detail = fmin[0][3] if fmin else f[3]
            reported[sig] = True
            ctx.violations[sig] = {
                "signature": list(sig), "detail": detail, "count": 1,
                "case": {"root": list(root), "json": erase(tv_min), "tv": to_json(tv_min), "extra": extra},
            }
        res["per_root"][rname] = state["n"]
    res["violations"] = list(ctx.violations.values())
    res["known_hits"] = ctx.known_hits
    res["known_examples"] = ctx.known_examples
    res["unions"] = {f"{k[0]}#{k[1]}": v for k, v in res["unions"].items()}
    res["classes"] = dict(res["classes"])
    for k_, v_ in NOTES.items():   # what the property bodies counted themselves (cases they could not judge, and why)
        res["classes"]["note:" + k_] = res["classes"].get("note:" + k_, 0) + v_
    NOTES.clear()
    return res


def run_regress(ctx: Ctx, prop: str) -> int:
    """The committed replay tier: saved cases re-executed without Hypothesis."""
    sub = subject()
    body = _BODIES[prop][0]
    d = os.path.join(runner.VERIF, "regress", prop)
    if prop in ("C01", "C02", "C03"):
        d = os.path.join(runner.VERIF, "regress", "values")  # shared saved values
    n = 0
    if not os.path.isdir(d):
        return 0
    for name in sorted(os.listdir(d)):
        if not name.endswith(".json"):
            continue
        with open(os.path.join(d, name)) as f:
            rp = json.load(f)
        case = rp["case"]
        tv = tvgen.from_json(case["tv"])
        root = tuple(case["root"])
        n += 1
        for g in body(sub, root, tv, case.get("extra")):
            ctx.finding((g[0], g[1], g[2]), g[3], {"root": list(root), "json": erase(tv), "tv": case["tv"],
                                                     "extra": case.get("extra"), "regress": name})
    return n


def run_value_property(ctx: Ctx, prop: str, n_quick: int, n_thorough: int, rule: str,
                       roots: Optional[List[tuple]] = None, extra_cov: Optional[dict] = None) -> None:
    sub = subject()
    n_regress = run_regress(ctx, prop)
    ctx.coverage["regress_cases_replayed"] = n_regress
    roots = roots if roots is not None else all_roots(sub.model)
    n = n_quick if ctx.quick else n_thorough
    n = int(os.environ.get("LSPVERIF_CASES", n))
    # the order in which classes reach a converter is part of the history (per-converter caches): it varies with the seed
    roots = sorted(roots, key=lambda r: derive_seed(ctx.seed, "order", root_name(r)))
    shards = runner.chunks(roots, runner.NPROC * 4)
    args = [(prop, sh, n, ctx.seed, not ctx.quick, 6) for sh in shards]
    results = runner.pmap(_worker, args)
    evaluations = 0
    hashes = set()
    unions: collections.Counter = collections.Counter()
    classes: collections.Counter = collections.Counter()
    samples: List[Any] = []
    min_root = None
    for r in results:
        evaluations += r["evaluations"]
        hashes |= r["hashes"]
        unions.update(r["unions"])
        classes.update(r["classes"])
        samples.extend(r["samples"])
        ctx.merge_worker(r)
        for k, v in r["per_root"].items():
            if min_root is None or v < min_root[1]:
                min_root = (k, v)
    occs = sub.model.union_occurrences()
    total_alts = sum(len(t["items"]) for _, t in occs)
    declared = {f"{l}#{i}" for l, t in occs for i in range(len(t["items"]))}
    covered = len(declared & set(unions))
    ctx.coverage.update({
        "evaluations": evaluations,
        "distinct_nontrivial": len(hashes),
        "rule": rule,
        "samples": samples[:6],
        "roots": len(roots),
        "cases_per_root": n,
        "min_cases_at_a_root": list(min_root) if min_root else None,
        "case_classes": dict(classes),
        "union_alternatives_declared": total_alts,
        "union_alternatives_produced": covered,
        "union_alternatives_never_produced": sorted(declared - set(unions))[:20],
    })
    if prop in ("C01", "C02", "C03"):
        seeds = [derive_seed(ctx.seed, "hashseed", i) % (2**32) for i in range(2 if ctx.quick else 6)]
        extra = hash_seed_sweep(ctx, prop, seeds, 25 if ctx.quick else 150)
        ctx.coverage["hash_seed_sweep"] = {"PYTHONHASHSEED": seeds, "cases": extra, "roots": len(SWEEP_ROOTS)}
        ctx.coverage["evaluations"] += extra
    if extra_cov:
        ctx.coverage.update(extra_cov)
    if evaluations == 0:
        raise HarnessError("no cases generated")


SWEEP_ROOTS = [("struct", "ServerCapabilities"), ("struct", "ClientCapabilities"), ("struct", "WorkspaceEdit"), ("struct", "CompletionItem"),
               ("struct", "Hover"), ("struct", "TextDocumentRegistrationOptions"), ("msg", "response", "workspace/symbol"),
               ("msg", "response", "textDocument/codeAction"), ("msg", "response", "textDocument/documentSymbol"),
               ("msg", "response", "textDocument/definition"), ("msg", "request", "initialize"), ("msg", "notification", "$/progress")]


def hash_seed_sweep(ctx: Ctx, prop: str, hash_seeds: List[int], n_cases: int) -> int:
    """the same property on the hook-heavy roots in fresh interpreters under other PYTHONHASHSEEDs (the harness process
    itself is pinned to one): order-of-iteration dependence inside the package would show here."""
    import subprocess
    import sys as _sys
    total = 0
    procs = []
    for hs in hash_seeds:
        code = (
            "import sys, json; sys.path.insert(0, %r); "
            "from lspverif import valuecheck; import lspverif.props.%s; "
            "r = valuecheck._worker((%r, valuecheck.SWEEP_ROOTS, %d, %d, False, 3)); "
            "print('SWEEP ' + json.dumps({'evaluations': r['evaluations'], 'violations': r['violations'], 'known_hits': r['known_hits'], 'known_examples': r['known_examples']}, default=repr))"
        ) % (runner.VERIF, prop.lower(), prop, n_cases, derive_seed(ctx.seed, "sweep", hs) % (2**31))
        env = dict(os.environ, PYTHONHASHSEED=str(hs), PYTHONDONTWRITEBYTECODE="1")
        procs.append((hs, subprocess.Popen([_sys.executable, "-B", "-c", code], stdout=subprocess.PIPE, stderr=subprocess.PIPE, text=True, env=env)))
    for hs, pr in procs:
        out, err = pr.communicate(timeout=1800)
        line = [ln for ln in out.splitlines() if ln.startswith("SWEEP ")]
        if not line:
            raise HarnessError(f"hash-seed sweep ({hs}) produced no result: {err[-300:]}")
        res = json.loads(line[-1][6:])
        for v in res["violations"]:
            v["signature"][2] = f"{v['signature'][2]} [PYTHONHASHSEED={hs}]" if False else v["signature"][2]
            v.setdefault("case", {})
            if isinstance(v["case"], dict):
                v["case"]["PYTHONHASHSEED"] = hs
        ctx.merge_worker(res)
        total += res["evaluations"]
    return total


def replay_value_case(ctx: Ctx, prop: str, path: str) -> int:
    """Re-execute a replay file without Hypothesis."""
    sub = subject()
    body = _BODIES[prop][0]
    with open(path) as f:
        rp = json.load(f)
    case = rp["case"]
    tv = tvgen.from_json(case["tv"])
    root = tuple(case["root"])
    fs = body(sub, root, tv, case.get("extra"))
    sig = tuple(rp["signature"])
    hit = [g for g in fs if (g[0], g[1], g[2]) == sig]
    if hit:
        print(f"VIOLATION property={prop} replay={path}")
        print(f"  signature={list(sig)} detail={hit[0][3]}")
        return 1
    print(f"[{prop}] replay {path}: signature no longer reproduces ({len(fs)} other findings)")
    return 0
