"""Coverage-guided campaign for C01 (thorough-tier extra): atheris (libFuzzer) drives the Hypothesis typed-value
strategy through `fuzz_one_input`, with branch coverage of the package under test as feedback; the C01 oracle runs
inside the target.  Findings are appended to a JSON-lines file (atexit does not run under libFuzzer) and the target
never raises, so the campaign continues past a finding.

usage: python -m lspverif.fuzz_c01 <findings.jsonl> -runs=N -seed=S [corpus_dir]
"""
from __future__ import annotations

import json
import os
import sys

sys.path.insert(0, os.path.join(os.path.dirname(os.path.dirname(os.path.abspath(__file__))), ".deps"))
import atheris  # noqa: E402

from lspverif.subject import setup_sys_path  # noqa: E402

setup_sys_path()
with atheris.instrument_imports(include=["lsprotocol"]):
    import lsprotocol._hooks  # noqa: F401,E402
    import lsprotocol.converters  # noqa: F401,E402

from hypothesis import HealthCheck, given, settings, strategies as st  # noqa: E402

from lspverif import tvgen, valuecheck  # noqa: E402
from lspverif.props import c01  # noqa: E402
from lspverif.runner import KnownFindings  # noqa: E402


def main() -> None:
    out_path = sys.argv[1]
    argv = [sys.argv[0]] + sys.argv[2:]
    sub = valuecheck.subject()
    known = KnownFindings("C01")
    # roots whose parsing goes through hand-written hooks are where coverage feedback can help
    roots = [r for r in valuecheck.all_roots(sub.model) if r[0] != "alias"]
    seen = set()
    counters = {"executions": 0, "findings": 0}
    out = open(out_path, "a", buffering=1)

    @st.composite
    def case(draw):
        ri = draw(st.integers(0, len(roots) - 1))
        root = roots[ri]
        g = tvgen.Gen(sub.objects, draw, tvgen.GenCfg(max_depth=6, max_nodes=300))
        return root, g.root(root)

    @settings(database=None, deadline=None, suppress_health_check=list(HealthCheck), max_examples=10**9)
    @given(case())
    def target(x):
        root, tv = x
        counters["executions"] += 1
        for f in c01.body(sub, root, tv):
            sig = (f[0], f[1], f[2])
            if sig in seen:
                continue
            seen.add(sig)
            if known.match(sig) is not None:
                out.write(json.dumps({"known": True, "signature": list(sig)}) + "\n")
                continue
            counters["findings"] += 1
            out.write(json.dumps({"signature": list(sig), "detail": f[3],
                                  "case": {"root": list(root), "json": tvgen.erase(tv), "tv": tvgen.to_json(tv), "extra": None}},
                                 default=repr) + "\n")
        if counters["executions"] % 1000 == 0:
            out.write(json.dumps({"progress": counters["executions"]}) + "\n")

    atheris.Setup(argv, target.hypothesis.fuzz_one_input)
    atheris.Fuzz()


if __name__ == "__main__":
    main()
