"""Subjects: (metamodel document, python package generated from it) (DESIGN 2.3)."""
from __future__ import annotations

import importlib
import os
import sys
from typing import Any, Dict, Optional

from . import tvgen
from .refmodel import Model, load_doc, snake
from .tvgen import A, L, Mp, N, P, S, T, U, TV, Objects

REPO = os.environ.get("LSPVERIF_REPO", "/repo")


def repo_path(*parts: str) -> str:
    return os.path.join(REPO, *parts)


def setup_sys_path() -> None:
    sys.dont_write_bytecode = True
    for p in (repo_path("packages", "python"), REPO):
        if p not in sys.path:
            sys.path.insert(0, p)


class Subject:
    def __init__(self, doc: dict, package: str = "lsprotocol", fresh_converter: bool = True):
        setup_sys_path()
        self.model = Model(doc)
        self.objects = Objects(self.model)
        self.package = package
        self.types = importlib.import_module(f"{package}.types")
        self.converters = importlib.import_module(f"{package}.converters")
        self.conv = self.converters.get_converter() if fresh_converter else None

    @classmethod
    def committed(cls) -> "Subject":
        return cls(load_doc(repo_path("generator", "lsp.json")))

    # -- classes --------------------------------------------------------------------
    def class_for(self, key: tuple) -> Any:
        k = key[0]
        if k == "struct":
            return getattr(self.types, key[1])
        if k == "msg":
            kind, m = self.objects.message(key[2])
            req, resp = self.model.message_class_names(kind, m)
            return getattr(self.types, resp if key[1] == "response" else req)
        if k == "special":
            return getattr(self.types, key[1])
        if k == "and":
            # registration options / params of a message: the class the catalogue names
            locus = key[1]
            kind, method, facet = locus.split(":", 2)
            entry = self.types.METHOD_TO_TYPES[method]
            return entry[3] if facet.startswith("registrationOptions") else entry[2]
        if k == "lit":
            return self.literal_class(key[1])
        raise KeyError(key)

    def literal_class(self, locus: str) -> Any:
        raise KeyError(f"no literal class known for {locus}")

    def root_type(self, root: tuple) -> Any:
        if root[0] == "alias":
            return getattr(self.types, root[1])
        if root[0] == "type":
            t = self.objects.type_at[root[1]]
            if t["kind"] == "and":
                return self.class_for(("and", root[1]))
            raise KeyError(f"no python type for root {root}")
        return self.class_for(root)

    # -- constructor path -----------------------------------------------------------
    def build(self, tv: TV) -> Any:
        """Nested constructor calls with snake_case keywords (C02)."""
        if isinstance(tv, S):
            cls = self.class_for(tv.key)
            kwargs = {snake(k): self.build(v) for k, v in tv.props.items()}
            return cls(**kwargs)
        if isinstance(tv, P):
            if tv.how[0] == "enum" and tv.how[2]:
                # closed enumerations are annotated with the Enum class alone: a type-correct
                # caller passes a member; open ones are Union[Enum, base]: member or raw value
                if tv.member or not self.model.enum_open(tv.how[1], True):
                    return getattr(self.types, tv.how[1])(tv.v)
            if tv.how == ("base", "decimal"):
                return float(tv.v)
            return tv.v
        if isinstance(tv, A):
            return tv.v
        if isinstance(tv, L):
            return [self.build(x) for x in tv.items]
        if isinstance(tv, T):
            return tuple(self.build(x) for x in tv.items)
        if isinstance(tv, Mp):
            return {k: self.build(v) for k, v in tv.items.items()}
        if isinstance(tv, U):
            return self.build(tv.child)
        if isinstance(tv, N):
            return None
        raise TypeError(tv)

    # -- normal form ------------------------------------------------------------------
    def nf(self, tv: TV) -> Any:
        return normal_form(self.objects, tv)


def normal_form(objects: Objects, tv: TV) -> Any:
    """NF(tv): metamodel key names, explicit null for every absent null-admitting
    property, the literal for every absent string-literal property, nothing for
    other absent optionals (C02/C10)."""
    m = objects.model
    if isinstance(tv, S):
        out: Dict[str, Any] = {}
        for k, v in tv.props.items():
            out[k] = normal_form(objects, v)
        for p in objects.props(tv.key):
            if p["name"] in out:
                continue
            if p["type"]["kind"] == "stringLiteral":
                out[p["name"]] = p["type"]["value"]
            elif m.admits_null(p["type"]) or p.get("_always"):
                out[p["name"]] = None
        # an optional, non-special property explicitly set to null is unset in Python
        for p in objects.props(tv.key):
            if p["name"] in tv.props and out[p["name"]] is None:
                special = p["type"]["kind"] == "stringLiteral" or m.admits_null(p["type"]) or p.get("_always")
                if p.get("optional") and not special:
                    del out[p["name"]]
        return out
    if isinstance(tv, P):
        if tv.how == ("base", "decimal"):
            return float(tv.v)
        return tv.v
    if isinstance(tv, A):
        return tv.v
    if isinstance(tv, (L, T)):
        return [normal_form(objects, x) for x in tv.items]
    if isinstance(tv, Mp):
        return {k: normal_form(objects, v) for k, v in tv.items.items()}
    if isinstance(tv, U):
        return normal_form(objects, tv.child)
    if isinstance(tv, N):
        return None
    raise TypeError(tv)
