"""Typed-value trees and their Hypothesis generator (DESIGN 2.2).

A typed value (TV) is a metamodel-valid JSON value together with the reading under
which it is valid: which structure each object instantiates, which alternative of
each union was taken, which positions are uninterpreted payload.
"""
from __future__ import annotations

import copy
import hashlib
import json
import math
from typing import Any, Callable, Dict, Iterable, Iterator, List, Optional, Sequence, Set, Tuple

from hypothesis import strategies as st

from .refmodel import INT_MAX, INT_MIN, PAYLOAD_ALIASES, STRING_BASES, UINT_MAX, UINT_MIN, Model


# --------------------------------------------------------------------------------
# tree nodes
# --------------------------------------------------------------------------------
class TV:
    __slots__ = ()


class S(TV):
    """object read as the structure `key`; props: wire name -> TV (generation order)."""
    __slots__ = ("key", "props")

    def __init__(self, key: tuple, props: Dict[str, TV]):
        self.key, self.props = tuple(key), props


class P(TV):
    """primitive; how = ('base', name) | ('enum', Name, declared?) | ('lit',)"""
    __slots__ = ("v", "how", "member")

    def __init__(self, v: Any, how: tuple, member: bool = False):
        self.v, self.how, self.member = v, tuple(how), member


class A(TV):
    """uninterpreted payload (LSPAny / LSPObject / LSPArray / {} positions)"""
    __slots__ = ("v",)

    def __init__(self, v: Any):
        self.v = v


class L(TV):
    __slots__ = ("items",)

    def __init__(self, items: List[TV]):
        self.items = items


class T(TV):
    __slots__ = ("items",)

    def __init__(self, items: List[TV]):
        self.items = items


class Mp(TV):
    """map; intkeys: the metamodel key type is `integer` (JSON keys are their decimal text, Python keys are ints);
    keyenum: the key type is a reference to that enumeration (JSON keys are the text of its values)"""
    __slots__ = ("items", "intkeys", "keyenum")

    def __init__(self, items: Dict[str, TV], intkeys: bool = False, keyenum: Optional[str] = None):
        self.items, self.intkeys, self.keyenum = items, intkeys, keyenum

    def like(self, items: Dict[str, TV]) -> "Mp":
        return Mp(items, self.intkeys, self.keyenum)


class U(TV):
    """union occurrence `occ` crossed through alternative idx (of n)."""
    __slots__ = ("occ", "idx", "n", "child")

    def __init__(self, occ: str, idx: int, n: int, child: TV):
        self.occ, self.idx, self.n, self.child = occ, idx, n, child


class N(TV):
    __slots__ = ()


def to_json(tv: TV) -> Any:
    if isinstance(tv, S):
        return ["S", list(tv.key), {k: to_json(v) for k, v in tv.props.items()}]
    if isinstance(tv, P):
        return ["P", tv.v, list(tv.how), tv.member]
    if isinstance(tv, A):
        return ["A", tv.v]
    if isinstance(tv, L):
        return ["L", [to_json(x) for x in tv.items]]
    if isinstance(tv, T):
        return ["T", [to_json(x) for x in tv.items]]
    if isinstance(tv, Mp):
        return ["M", {k: to_json(v) for k, v in tv.items.items()}, tv.intkeys, tv.keyenum]
    if isinstance(tv, U):
        return ["U", tv.occ, tv.idx, tv.n, to_json(tv.child)]
    if isinstance(tv, N):
        return ["N"]
    raise TypeError(tv)


def from_json(j: Any) -> TV:
    tag = j[0]
    if tag == "S":
        return S(tuple(j[1]), {k: from_json(v) for k, v in j[2].items()})
    if tag == "P":
        return P(j[1], tuple(j[2]), j[3])
    if tag == "A":
        return A(j[1])
    if tag == "L":
        return L([from_json(x) for x in j[1]])
    if tag == "T":
        return T([from_json(x) for x in j[1]])
    if tag == "M":
        return Mp({k: from_json(v) for k, v in j[1].items()}, bool(j[2]) if len(j) > 2 else False, j[3] if len(j) > 3 else None)
    if tag == "U":
        return U(j[1], j[2], j[3], from_json(j[4]))
    if tag == "N":
        return N()
    raise ValueError(tag)


def erase(tv: TV) -> Any:
    """The JSON value the tree stands for."""
    if isinstance(tv, S):
        return {k: erase(v) for k, v in tv.props.items()}
    if isinstance(tv, P):
        return tv.v
    if isinstance(tv, A):
        return tv.v
    if isinstance(tv, (L, T)):
        return [erase(x) for x in tv.items]
    if isinstance(tv, Mp):
        return {k: erase(v) for k, v in tv.items.items()}
    if isinstance(tv, U):
        return erase(tv.child)
    if isinstance(tv, N):
        return None
    raise TypeError(tv)


def strip_u(tv: TV) -> TV:
    while isinstance(tv, U):
        tv = tv.child
    return tv


def walk(tv: TV, path: Tuple = ()) -> Iterator[Tuple[Tuple, TV]]:
    yield path, tv
    if isinstance(tv, S):
        for k, v in tv.props.items():
            yield from walk(v, path + (("p", k),))
    elif isinstance(tv, (L, T)):
        for i, v in enumerate(tv.items):
            yield from walk(v, path + (("i", i),))
    elif isinstance(tv, Mp):
        for k, v in tv.items.items():
            yield from walk(v, path + (("k", k),))
    elif isinstance(tv, U):
        yield from walk(tv.child, path + (("u",),))


def reorder(tv: TV, mode: str) -> TV:
    """the same value with the members of every object written in another order ("reversed" | "sorted"): JSON object
    member order carries no meaning, so this is the same input to every property."""
    if isinstance(tv, S):
        items = [(k, reorder(v, mode)) for k, v in tv.props.items()]
        items = list(reversed(items)) if mode == "reversed" else sorted(items, key=lambda kv: kv[0])
        return S(tv.key, dict(items))
    if isinstance(tv, L):
        return L([reorder(x, mode) for x in tv.items])
    if isinstance(tv, T):
        return T([reorder(x, mode) for x in tv.items])
    if isinstance(tv, Mp):
        return tv.like({k: reorder(v, mode) for k, v in tv.items.items()})
    if isinstance(tv, U):
        u = copy.copy(tv)
        u.child = reorder(tv.child, mode)
        return u
    return tv


def canon_hash(j: Any) -> str:
    return hashlib.sha256(
        json.dumps(j, sort_keys=True, ensure_ascii=True, allow_nan=True, default=repr).encode()
    ).hexdigest()[:16]


class Stats:
    """classification of one tree (feeds coverage counters)."""

    def __init__(self, tv: TV):
        self.unions: List[Tuple[str, int]] = []
        self.depth = 0
        self.nodes = 0
        self.objects = 0
        self.optional_set = 0
        self.payloads = 0
        self.custom_enum = 0
        self.enum_sites = 0
        self.non_ascii = 0
        self.boundary_int = 0
        self.hetero_arrays = 0
        for path, n in walk(tv):
            self.nodes += 1
            self.depth = max(self.depth, len(path))
            if isinstance(n, U):
                self.unions.append((n.occ, n.idx))
            elif isinstance(n, S):
                self.objects += 1
            elif isinstance(n, A):
                self.payloads += 1
            elif isinstance(n, P):
                if n.how[0] == "enum":
                    self.enum_sites += 1
                    if not n.how[2]:
                        self.custom_enum += 1
                if isinstance(n.v, str) and any(ord(c) > 127 for c in n.v):
                    self.non_ascii += 1
                if isinstance(n.v, int) and not isinstance(n.v, bool) and n.v in (INT_MIN, INT_MAX, UINT_MAX, 0):
                    self.boundary_int += 1
            elif isinstance(n, L) and len(n.items) >= 2:
                shapes = set()
                for it in n.items:
                    it = strip_u(it)
                    if isinstance(it, S):
                        shapes.add(tuple(sorted(it.props)))
                if len(shapes) >= 2:
                    self.hetero_arrays += 1

    def nontrivial(self) -> bool:
        return bool(self.unions) or self.payloads > 0 or self.optional_set > 0


# --------------------------------------------------------------------------------
# object descriptors
# --------------------------------------------------------------------------------
ID_TYPE = {"kind": "or", "items": [{"kind": "base", "name": "integer"}, {"kind": "base", "name": "string"}]}
NULL_T = {"kind": "base", "name": "null"}


def msg_props(model: Model, kind: str, m: dict) -> List[dict]:
    """Synthetic property lists of the three JSON-RPC envelopes (DESIGN 2.1)."""
    jsonrpc = {"name": "jsonrpc", "type": {"kind": "stringLiteral", "value": "2.0"}, "_envelope": True}
    method = {"name": "method", "type": {"kind": "stringLiteral", "value": m["method"]}, "_envelope": True}
    if m.get("params"):
        params = {"name": "params", "type": m["params"], "_locus": f"{kind}:{m['method']}:params"}
    else:
        params = {"name": "params", "type": NULL_T, "optional": True, "_locus": f"{kind}:{m['method']}:params"}
    if kind == "request":
        return [{"name": "id", "type": ID_TYPE, "_locus": "envelope:id"}, params, method, jsonrpc]
    if kind == "notification":
        return [params, method, jsonrpc]
    if kind == "response":
        rt = m.get("result") or NULL_T
        return [
            {"name": "id", "type": ID_TYPE, "_locus": "envelope:id"},
            {"name": "result", "type": rt, "_locus": f"request:{m['method']}:result", "_always": True},
            jsonrpc,
        ]
    raise ValueError(kind)


RESPONSE_ERROR_PROPS = [
    {"name": "code", "type": {"kind": "base", "name": "integer"}, "_locus": "envelope:error.code"},
    {"name": "message", "type": {"kind": "base", "name": "string"}, "_locus": "envelope:error.message"},
    {"name": "data", "type": {"kind": "reference", "name": "LSPAny"}, "optional": True, "_locus": "envelope:error.data"},
]


class Objects:
    """Resolves S-node keys to property lists for one metamodel."""

    def __init__(self, model: Model):
        self.model = model
        self.type_at: Dict[str, dict] = {}
        for locus, t in model.iter_type_roots():
            for l2, t2 in model.iter_subtypes(locus, t):
                self.type_at[l2] = t2
        self._methods = {}
        for kind, m in model.messages():
            self._methods[m["method"]] = (kind, m)

    def message(self, method: str) -> Tuple[str, dict]:
        return self._methods[method]

    def props(self, key: tuple) -> List[dict]:
        k = key[0]
        if k == "struct":
            return self.model.flat_props(key[1])
        if k == "and":
            return self.model.and_props(self.type_at[key[1]])
        if k == "lit":
            return self.type_at[key[1]]["value"]["properties"]
        if k == "msg":
            kind, m = self._methods[key[2]]
            return msg_props(self.model, key[1], m)
        if k == "special":
            if key[1] == "ResponseError":
                return RESPONSE_ERROR_PROPS
            if key[1] == "ResponseErrorMessage":
                return [
                    # base protocol, ResponseMessage.id: integer | string | null (null when the request could not be read)
                    {"name": "id", "type": {"kind": "or", "items": ID_TYPE["items"] + [NULL_T]},
                     "_locus": "envelope:errid"},
                    {"name": "error", "type": {"kind": "reference", "name": "ResponseError"},
                     "_locus": "envelope:error", "_always": True},
                    {"name": "jsonrpc", "type": {"kind": "stringLiteral", "value": "2.0"}, "_envelope": True},
                ]
        raise KeyError(key)

    def prop_locus(self, key: tuple, p: dict) -> str:
        if "_locus" in p:
            return p["_locus"]
        if key[0] == "struct" or key[0] == "and":
            return f"struct:{p['_declared_in']}.{p['name']}"
        if key[0] == "lit":
            return f"{key[1]}|.{p['name']}"
        return f"{key}:{p['name']}"


# --------------------------------------------------------------------------------
# value pools
# --------------------------------------------------------------------------------
STRING_POOL = [
    "", "a", "x y", "Ab_1", "id", "kind", "command", "range", "location", "uri", "snippet",
    "ünï", "日本語", "\U0001F600", "\u0000", "line\nbreak", "\t", "\"q\"", "null", "true", "0",
    "long " * 2000,   # sizes: a 10 kB string
]
URI_POOL = ["file:///a.py", "file:///c%3A/dir/b.txt", "untitled:Untitled-1", "https://example.com/x?y=1#z", ""]
INT_BOUNDS = [INT_MIN, INT_MIN + 1, -1, 0, 1, INT_MAX - 1, INT_MAX]
UINT_BOUNDS = [0, 1, 2, UINT_MAX - 1, UINT_MAX]

strings = st.one_of(st.sampled_from(STRING_POOL), st.text(max_size=6))
uris = st.one_of(st.sampled_from(URI_POOL), st.text(max_size=6))
integers = st.one_of(st.sampled_from(INT_BOUNDS), st.integers(INT_MIN, INT_MAX), st.integers(-300, 300))
uintegers = st.one_of(st.sampled_from(UINT_BOUNDS), st.integers(UINT_MIN, UINT_MAX), st.integers(0, 300))
decimals = st.one_of(
    st.floats(allow_nan=False, allow_infinity=False, width=64),
    st.sampled_from([0.0, -0.0, 0.5, 1.0, 1e-9, 1e300, -2.5]),
    st.integers(-1000, 1000),
)
_json_leaf = st.one_of(
    st.none(), st.booleans(), st.sampled_from([0, False, "", 0.0]), st.integers(INT_MIN, INT_MAX),
    st.floats(allow_nan=False, allow_infinity=False), strings,
)
json_any = st.recursive(
    _json_leaf,
    lambda ch: st.one_of(st.lists(ch, max_size=3), st.dictionaries(strings, ch, max_size=3)),
    max_leaves=6,
)
json_object = st.dictionaries(strings, json_any, max_size=3)
json_array = st.lists(json_any, max_size=3)


class GenCfg:
    def __init__(
        self,
        max_depth: int = 5,
        max_nodes: int = 250,
        route: Optional[List[str]] = None,
        target: Optional[Callable[["Gen", dict, str, int], TV]] = None,
        mode: str = "rand",           # rand | min | max (root object only for max)
        decimal_ints: bool = True,    # integral JSON numbers at decimal positions (parse path)
        python_custom: bool = True,   # CompletionItemKind open
        null_params: bool = True,
        key_order: bool = True,       # the members of objects come in varying order
    ):
        self.max_depth, self.max_nodes = max_depth, max_nodes
        # route: loci to pass through (parent->child chain from the root, see Router);
        # target(gen, type, locus, depth) builds the value at the last locus of the route.
        self.route = route or []
        self.target = target
        self.mode = mode
        self.decimal_ints = decimal_ints
        self.python_custom = python_custom
        self.null_params = null_params
        self.key_order = key_order


class Gen:
    """One generation run.  `draw` is Hypothesis's draw function: every choice goes through it."""

    def __init__(self, objects: Objects, draw: Callable, cfg: Optional[GenCfg] = None):
        self.o = objects
        self.m = objects.model
        self.draw = draw
        self.cfg = cfg or GenCfg()
        self.nodes = 0
        self.optional_set = 0
        self.shape: Optional[str] = None  # 'min' | 'max' forces the shape of every object generated while set
        self.solo: Optional[str] = None   # next object: required properties plus exactly this optional one

    # -- entry points ---------------------------------------------------------------
    def root(self, root: tuple) -> TV:
        """root = ('struct', Name) | ('alias', Name) | ('msg', kind, method) | ('special', Name) | ('type', locus)"""
        k = root[0]
        r0 = -1 if self.cfg.route else None
        if k == "struct":
            return self.obj(("struct", root[1]), 0, self.cfg.mode, r0)
        if k == "alias":
            return self.type({"kind": "reference", "name": root[1]}, f"root:{root[1]}", 0, r0)
        if k in ("msg", "special"):
            return self.obj(root, 0, self.cfg.mode, r0)
        if k == "type":
            ri = 0 if (self.cfg.route and self.cfg.route[0] == root[1]) else None
            return self.type(self.o.type_at[root[1]], root[1], 0, ri)
        raise ValueError(root)

    def _next(self, ri: Optional[int], locus: str) -> Optional[int]:
        """route index of a child at `locus` of a node at route index ri (None = off route)."""
        if ri is None:
            return None
        r = self.cfg.route
        if ri + 1 < len(r) and r[ri + 1] == locus:
            return ri + 1
        return None

    # -- objects --------------------------------------------------------------------
    def _saturated(self, depth: int) -> bool:
        return depth >= self.cfg.max_depth or self.nodes >= self.cfg.max_nodes

    def obj(self, key: tuple, depth: int, mode: str = "rand", ri: Optional[int] = None) -> S:
        self.nodes += 1
        if self.shape is not None:
            mode = self.shape
        props = self.o.props(key)
        optional = [p for p in props if p.get("optional")]
        chosen: Set[str] = set()
        if self.solo is not None:
            solo, self.solo = self.solo, None
            optional_names = {p["name"] for p in optional}
            chosen = {solo} & optional_names
            optional = []
        if optional:
            if mode == "max" and not self._saturated(depth):
                chosen = {p["name"] for p in optional}
            elif mode == "min" or self._saturated(depth):
                chosen = set()
            elif self.draw(st.integers(0, 7)) == 0:
                # sparse shapes (exactly one optional property) are where alternatives of a union look most alike
                chosen = {optional[self.draw(st.integers(0, len(optional) - 1))]["name"]}
            else:
                n = len(optional)
                mask = self.draw(st.integers(0, (1 << n) - 1))
                for _ in range(min(depth // 2, 2)):
                    if mask:
                        mask &= self.draw(st.integers(0, (1 << n) - 1))
                chosen = {p["name"] for i, p in enumerate(optional) if (mask >> i) & 1}
        out: Dict[str, TV] = {}
        for p in props:
            locus = self.o.prop_locus(key, p)
            cri = self._next(ri, locus)
            present = (not p.get("optional")) or p["name"] in chosen or cri is not None
            if not present:
                continue
            if p.get("optional"):
                self.optional_set += 1
            out[p["name"]] = self.type(p["type"], locus, depth + 1, cri)
            if p["name"] == "method" and key[0] != "msg" and isinstance(out["method"], P) and out["method"].how == ("base", "string") \
                    and self.draw(st.integers(0, 1)) == 0:
                # a property that names a method holds, more often than not, the name of a real one (Registration.method)
                methods = sorted(m_["method"] for m_ in self.m.doc["requests"] + self.m.doc["notifications"])
                out["method"] = P(methods[self.draw(st.integers(0, len(methods) - 1))], ("base", "string"))
        if len(out) > 1 and self.cfg.key_order:
            # the order of the members of a JSON object carries no meaning: senders sort them, or write optional ones first
            o = self.draw(st.integers(0, 6))
            if o == 3:
                out = dict(reversed(list(out.items())))
            elif o == 4:
                out = dict(sorted(out.items()))
            elif o == 5:
                names = self.draw(st.permutations(sorted(out)))
                out = {n: out[n] for n in names}
            elif o == 6:  # optional members before required ones
                opt = {p["name"] for p in props if p.get("optional")}
                out = {**{k: v for k, v in out.items() if k in opt}, **{k: v for k, v in out.items() if k not in opt}}
        return S(key, out)

    # -- types ----------------------------------------------------------------------
    def type(self, t: dict, locus: str, depth: int, ri: Optional[int] = None) -> TV:
        if ri is not None and ri == len(self.cfg.route) - 1 and self.cfg.target is not None:
            return self.cfg.target(self, t, locus, depth)
        self.nodes += 1
        k = t["kind"]
        if k == "base":
            return self.base(t["name"])
        if k == "stringLiteral" or k == "integerLiteral" or k == "booleanLiteral":
            # member=True: the constructor path leaves the literal to its default
            return P(t["value"], ("lit",), self.draw(st.booleans()))
        if k == "reference":
            n = t["name"]
            if n == "LSPAny":
                return A(self.draw(json_any))
            if n == "LSPObject":
                return A(self.draw(json_object))
            if n == "LSPArray":
                return A(self.draw(json_array))
            if n in self.m.enums:
                return self.enum(n)
            if n in self.m.aliases:
                al = f"alias:{n}"
                return self.type(self.m.aliases[n]["type"], al, depth, self._next(ri, al))
            if n in self.m.structs:
                return self.obj(("struct", n), depth, "rand", ri)
            if n == "ResponseError":
                return self.obj(("special", "ResponseError"), depth, "rand", ri)
            raise KeyError(n)
        if k == "array":
            el = f"{locus}|[]"
            cri = self._next(ri, el)
            forced = cri is not None
            if self._saturated(depth) and not forced:
                return L([])
            hi = 3 if depth < 3 else 1
            n = self.draw(st.integers(1 if forced else 0, hi))
            if n == hi and depth < 2 and self.draw(st.integers(0, 5)) == 0:
                n = self.draw(st.integers(4, 7))   # now and then a longer array (code that looks at a prefix only)
            pos = self.draw(st.integers(0, n - 1)) if forced and n > 1 else 0
            return L([self.type(t["element"], el, depth + 1, cri if i == pos else None) for i in range(n)])
        if k == "map":
            vl = f"{locus}|{{}}"
            cri = self._next(ri, vl)
            forced = cri is not None
            if self._saturated(depth) and not forced:
                return Mp({})
            keys = self.draw(
                st.lists(self.map_key(t["key"]), min_size=1 if forced else 0, max_size=2 if depth < 3 else 1, unique=True)
            )
            kt = self.m.resolve_alias(t["key"])
            return Mp({key: self.type(t["value"], vl, depth + 1, cri if i == 0 else None) for i, key in enumerate(keys)},
                      intkeys=(kt["kind"] == "base" and kt["name"] == "integer"),
                      keyenum=kt["name"] if kt["kind"] == "reference" and kt["name"] in self.m.enums else None)
        if k == "tuple":
            return T([self.type(it, f"{locus}|{i}", depth + 1, self._next(ri, f"{locus}|{i}")) for i, it in enumerate(t["items"])])
        if k == "or":
            items = t["items"]
            idx = None
            cri = None
            for i in range(len(items)):
                cri = self._next(ri, f"{locus}|{i}")
                if cri is not None:
                    idx = i
                    break
            if idx is None:
                if self._saturated(depth):
                    depths = [self.m.min_depth(it) for it in items]
                    lo = min(depths)
                    cands = [i for i, d in enumerate(depths) if d == lo]
                    idx = cands[self.draw(st.integers(0, len(cands) - 1))] if len(cands) > 1 else cands[0]
                else:
                    idx = self.draw(st.integers(0, len(items) - 1))
            return U(locus, idx, len(items), self.type(items[idx], f"{locus}|{idx}", depth, cri))
        if k == "and":
            return self.obj(("and", locus), depth, "rand", ri)
        if k == "literal":
            if len(t["value"]["properties"]) == 0:
                return A(self.draw(json_object))
            return self.obj(("lit", locus), depth, "rand", ri)
        raise ValueError(k)

    def key_like(self) -> st.SearchStrategy:
        """strings that look like protocol keys (hand-written code probes values with `in`)."""
        ks = getattr(self.o, "_key_like", None)
        if ks is None:
            names = sorted({p["name"] for s in self.m.doc["structures"] for p in s["properties"]})
            ks = names + [f"x-{n}-y" for n in names[::7]] + [n.upper() for n in names[::11]]
            # ... and strings that are names of the protocol in another sense: method strings, type names, enumeration values
            # (code may look a string value up in one of the package's tables)
            methods = sorted(m_["method"] for m_ in self.m.doc["requests"] + self.m.doc["notifications"])
            ks += methods + sorted(self.m.structs)[::9] + sorted(self.m.enums)[::5] + \
                sorted({str(v["value"]) for e in self.m.doc["enumerations"] if e["type"]["name"] == "string" for v in e["values"]})[::3]
            self.o._key_like = ks
        return st.sampled_from(ks)

    def base(self, name: str) -> TV:
        if name == "string" or name == "RegExp":
            if self.draw(st.integers(0, 5)) == 0:
                return P(self.draw(self.key_like()), ("base", name))
            return P(self.draw(strings), ("base", name))
        if name in ("DocumentUri", "URI"):
            return P(self.draw(uris), ("base", name))
        if name == "integer":
            return P(self.draw(integers), ("base", name))
        if name == "uinteger":
            return P(self.draw(uintegers), ("base", name))
        if name == "decimal":
            v = self.draw(decimals)
            if not self.cfg.decimal_ints:
                v = float(v)
            return P(v, ("base", name))
        if name == "boolean":
            return P(self.draw(st.booleans()), ("base", name))
        if name == "null":
            return N()
        raise ValueError(name)

    def map_key(self, kt: dict) -> st.SearchStrategy:
        kt = self.m.resolve_alias(kt)
        if kt["kind"] == "base" and kt["name"] in ("DocumentUri", "URI"):
            return uris
        if kt["kind"] == "base" and kt["name"] == "integer":
            return st.one_of(st.integers(-5, 5), st.sampled_from([INT_MIN, INT_MAX])).map(str)
        if kt["kind"] == "reference" and kt["name"] in self.m.enums:
            e = self.m.enums[kt["name"]]
            declared = st.sampled_from([str(v["value"]) for v in e["values"]])
            if not self.m.enum_open(kt["name"], self.cfg.python_custom):
                return declared
            base = e["type"]["name"]
            return st.one_of(declared, strings if base == "string" else (integers if base == "integer" else uintegers).map(str))
        return strings

    def enum(self, name: str) -> P:
        e = self.m.enums[name]
        declared = [v["value"] for v in e["values"]]
        open_ = self.m.enum_open(name, self.cfg.python_custom)
        as_member = self.draw(st.booleans())
        if open_ and self.draw(st.integers(0, 3)) == 0:
            base = e["type"]["name"]
            if base == "string":
                v = self.draw(strings)
            elif base == "integer":
                v = self.draw(integers)
            else:
                v = self.draw(uintegers)
            if v not in declared:
                return P(v, ("enum", name, False), False)
        v = declared[self.draw(st.integers(0, len(declared) - 1))]
        return P(v, ("enum", name, True), as_member)


def value_strategy(objects: Objects, root: tuple, cfg: Optional[GenCfg] = None) -> st.SearchStrategy:
    @st.composite
    def _s(draw):
        g = Gen(objects, draw, cfg)
        tv = g.root(root)
        return tv, g.optional_set

    return _s()


# --------------------------------------------------------------------------------
# routes: how to reach a locus from a root (for pinned generation)
# --------------------------------------------------------------------------------
class Router:
    """Shortest forced routes from object keys to loci."""

    def __init__(self, objects: Objects):
        self.o = objects
        self.m = objects.model
        self._edges: Dict[str, List[str]] = {}

    def route(self, root: tuple, target: str, max_len: int = 40) -> Optional[List[str]]:
        """BFS over (locus) nodes; returns the list of loci to force, or None."""
        from collections import deque

        start_nodes: List[Tuple[str, dict]] = []
        if root[0] in ("struct", "msg", "special", "and", "lit"):
            for p in self.o.props(root):
                start_nodes.append((self.o.prop_locus(root, p), p["type"]))
        elif root[0] == "alias":
            start_nodes.append((f"alias:{root[1]}", self.m.aliases[root[1]]["type"]))
        elif root[0] == "type":
            start_nodes.append((root[1], self.o.type_at[root[1]]))
        prev: Dict[str, Optional[str]] = {}
        types: Dict[str, dict] = {}
        dq = deque()
        for l, t in start_nodes:
            if l not in prev:
                prev[l] = None
                types[l] = t
                dq.append(l)
        seen_structs: Set[str] = set()
        while dq:
            l = dq.popleft()
            if l == target:
                path = []
                cur: Optional[str] = l
                while cur is not None:
                    path.append(cur)
                    cur = prev[cur]
                return list(reversed(path))
            t = types[l]
            nxt: List[Tuple[str, dict]] = []
            k = t["kind"]
            if k in ("or", "tuple"):
                nxt = [(f"{l}|{i}", it) for i, it in enumerate(t["items"])]
            elif k == "array":
                nxt = [(f"{l}|[]", t["element"])]
            elif k == "map":
                nxt = [(f"{l}|{{}}", t["value"])]
            elif k == "literal":
                nxt = [(f"{l}|.{p['name']}", p["type"]) for p in t["value"]["properties"]]
            elif k == "and":
                key = ("and", l)
                nxt = [(self.o.prop_locus(key, p), p["type"]) for p in self.m.and_props(t)]
            elif k == "reference":
                n = t["name"]
                if n in self.m.aliases and n not in PAYLOAD_ALIASES:
                    nxt = [(f"alias:{n}", self.m.aliases[n]["type"])]
                elif n in self.m.structs and n not in seen_structs:
                    seen_structs.add(n)
                    key = ("struct", n)
                    nxt = [(self.o.prop_locus(key, p), p["type"]) for p in self.m.flat_props(n)]
            for l2, t2 in nxt:
                if l2 not in prev:
                    prev[l2] = l
                    types[l2] = t2
                    dq.append(l2)
        return None


# --------------------------------------------------------------------------------
# use sites: every (root, route) under which a declared locus is reachable
# --------------------------------------------------------------------------------
def locus_chain(locus: str) -> List[str]:
    """'struct:X.p|0|[]' -> ['struct:X.p', 'struct:X.p|0', 'struct:X.p|0|[]']"""
    head, *rest = locus.split("|")
    out = [head]
    for r in rest:
        out.append(out[-1] + "|" + r)
    return out


class Sites:
    def __init__(self, objects: Objects):
        self.o = objects
        self.m = objects.model
        # alias name -> loci of `reference alias` nodes
        self.alias_refs: Dict[str, List[str]] = {}
        # enum name -> loci of `reference enum` nodes
        self.enum_refs: Dict[str, List[str]] = {}
        for locus, t in objects.type_at.items():
            if t["kind"] == "reference":
                if t["name"] in self.m.aliases:
                    self.alias_refs.setdefault(t["name"], []).append(locus)
                elif t["name"] in self.m.enums:
                    self.enum_refs.setdefault(t["name"], []).append(locus)
        self._inheritors: Dict[Tuple[str, str], List[str]] = {}
        for s in self.m.structs:
            for p in self.m.flat_props(s):
                self._inheritors.setdefault((p["_declared_in"], p["name"]), []).append(s)

    def sites(self, locus: str, max_roots_per_prop: Optional[int] = None, _stack: Tuple[str, ...] = ()) -> List[Tuple[tuple, List[str]]]:
        chain = locus_chain(locus)
        head = chain[0]
        out: List[Tuple[tuple, List[str]]] = []
        if head.startswith("struct:"):
            sname, pname = head[len("struct:"):].split(".", 1)
            roots = self._inheritors.get((sname, pname), [])
            # declaring structure first
            roots = sorted(roots, key=lambda r: (r != sname, r))
            if max_roots_per_prop is not None:
                roots = roots[:max_roots_per_prop]
            for r in roots:
                out.append((("struct", r), chain))
        elif head.startswith("alias:"):
            a = head[len("alias:"):]
            if a in _stack:
                return []
            out.append((("alias", a), chain))
            for ref in self.alias_refs.get(a, []):
                for root, rroute in self.sites(ref, max_roots_per_prop, _stack + (a,)):
                    out.append((root, rroute + chain))
        elif head.startswith("request:") or head.startswith("notification:"):
            kind, rest = head.split(":", 1)
            method, facet = rest.rsplit(":", 1)
            if facet == "params":
                out.append((("msg", kind, method), chain))
            elif facet == "result":
                out.append((("msg", "response", method), chain))
            # partialResult / errorData / registrationOptions have no typed surface of their own
        return out
