"""C13 — enums carry exactly the metamodel's values; open ones accept custom values."""
from __future__ import annotations

import collections
import copy
import enum
import json
from typing import Any, Dict, List, Tuple

from hypothesis import strategies as st

from .. import runner, tvgen, valuecheck
from ..hyp import mini
from ..oracle import WellTyped, roundtrip_relation
from ..refmodel import INT_MAX, INT_MIN, UINT_MAX
from ..runner import Ctx
from ..tvgen import GenCfg, P, Sites, TV, erase, to_json
from .c01 import exc_detail, exc_frame, exc_sig

RULE = (
    "static: all 40 enumerations, class/base/multiset of values compared both ways (exhaustive). dynamic: every use "
    "site of an enumeration (property, array element, map value, union member, through aliases; every inheriting "
    "structure and message root) x every declared value, placed in a generated valid root: must structure, hold a "
    "member or equal primitive and round-trip; open enumerations (supportsCustomValues or the documented "
    "CompletionItemKind customisation) also with generated custom values of the base type; closed ones with outside "
    "values: must be rejected whenever the edited root is invalid under every reading. non-trivial = every placed "
    "value; distinct = (site, root, value)"
)


def outside_values(e: dict) -> List[Any]:
    vals = [v["value"] for v in e["values"]]
    if e["type"]["name"] == "string":
        pool = [vals[0] + "_x", "", vals[0].upper() + "?", "custom", "é"]
    elif e["type"]["name"] == "uinteger":
        pool = [max(vals) + 1, 0, max(vals) + 1000, UINT_MAX, 7]
    else:
        pool = [max(vals) + 1, 0, min(vals) - 1, INT_MAX, INT_MIN]
    return [x for x in pool if x not in vals]


def make_target(value: Any, ename: str, declared: bool):
    def target(gen, t, locus, depth):
        return P(value, ("enum", ename, declared), False)
    return target


class UserText(str):
    pass


class UserNumber(int):
    pass


def with_value(tv: TV, ename: str, wrapped) -> Any:
    """erase(tv) with every custom (undeclared) value of enumeration `ename` replaced by `wrapped`"""
    from ..tvgen import L, Mp, S, T, U
    if isinstance(tv, S):
        return {k: with_value(v, ename, wrapped) for k, v in tv.props.items()}
    if isinstance(tv, (L, T)):
        return [with_value(v, ename, wrapped) for v in tv.items]
    if isinstance(tv, Mp):
        return {k: with_value(v, ename, wrapped) for k, v in tv.items.items()}
    if isinstance(tv, U):
        return with_value(tv.child, ename, wrapped)
    if isinstance(tv, P) and tv.how[0] == "enum" and tv.how[1] == ename and not tv.how[2] and tv.v == wrapped:
        return wrapped
    return erase(tv)


def with_members(tv: TV, ename: str, ecls) -> Any:
    """erase(tv) with every declared value of enumeration `ename` given as the member object"""
    from ..tvgen import A, L, Mp, N, S, T, U
    if isinstance(tv, S):
        return {k: with_members(v, ename, ecls) for k, v in tv.props.items()}
    if isinstance(tv, (L, T)):
        return [with_members(v, ename, ecls) for v in tv.items]
    if isinstance(tv, Mp):
        return {k: with_members(v, ename, ecls) for k, v in tv.items.items()}
    if isinstance(tv, U):
        return with_members(tv.child, ename, ecls)
    if isinstance(tv, P) and tv.how[0] == "enum" and tv.how[1] == ename and tv.how[2]:
        try:
            return ecls(tv.v)
        except Exception:
            return tv.v
    return erase(tv)


def _work(args) -> dict:
    items, seed, k, n_custom = args
    sub = valuecheck.subject()
    wt = WellTyped(sub)
    m = sub.model
    ctx = Ctx("C13", "quick", seed)
    res: Dict[str, Any] = {"evaluations": 0, "distinct": set(), "samples": [], "kinds": collections.Counter()}
    for (site, ename, root, route) in items:
        e = m.enums[ename]
        rname = valuecheck.root_name(root)
        try:
            T = sub.root_type(root)
        except Exception:
            res["kinds"]["not-judged:root-type-unavailable"] += 1
            continue
        open_ = m.enum_open(ename, True)
        declared = [v["value"] for v in e["values"]]
        plan: List[Tuple[Any, str]] = [(v, "declared") for v in declared]
        if not open_:
            plan += [(v, "outside") for v in outside_values(e)[:3]]

        def place(value: Any, kind: str, n: int, custom_strategy=None) -> None:
            def run_one(tv: TV, value=value) -> None:
                j = erase(tv)
                res["evaluations"] += 1
                res["kinds"][kind] += 1
                res["distinct"].add((site, rname, repr(value)))
                if len(res["samples"]) < 2 and len(json.dumps(j)) < 200:
                    res["samples"].append({"site": site, "root": rname, "enumeration": ename, "value": value, "kind": kind, "json": j})
                case = {"root": list(root), "json": j, "tv": to_json(tv), "site": site, "value": value, "kind": kind}
                try:
                    obj = sub.conv.structure(j, T)
                except Exception as ex:
                    if kind == "outside":
                        return
                    fr = exc_frame(ex)
                    ctx.finding((f"raises:{exc_sig(ex)}", fr if fr != "?" else f"root:{rname}", f"{site}:{kind}"),
                                f"root {rname}: value {value!r} of {ename}: {exc_detail(ex)}", case)
                    return
                if kind == "outside":
                    # demanded only when no reading makes the edited root valid
                    if root[0] == "alias":
                        valid = m.valid(j, {"kind": "reference", "name": root[1]}, strict=False, python_custom=True)
                    elif root[0] == "struct":
                        valid = m.valid(j, {"kind": "reference", "name": root[1]}, strict=False, python_custom=True)
                    else:
                        kind_, msg = sub.objects.message(root[2])
                        fn = {"request": m.valid_request, "notification": m.valid_notification, "response": m.valid_response}[root[1]]
                        valid = fn(j, msg, strict=False)
                    if not valid:
                        ctx.finding(("accepted-outside-value", site, "closed"),
                                    f"root {rname}: {value!r} is not a value of closed enumeration {ename} but was accepted", case)
                    return
                try:
                    o = json.loads(json.dumps(sub.conv.unstructure(obj, T)))
                except Exception as ex:
                    ctx.finding((f"raises:{exc_sig(ex)}", exc_frame(ex), f"{site}:{kind}:unstructure"), exc_detail(ex), case)
                    return
                for f in roundtrip_relation(sub.objects, o, tv, f"root:{rname}"):
                    if f[1] == site or f[1].startswith(site + "|"):
                        ctx.finding((f[0], f[1], f"{site}:{kind}"), f"value {value!r}: {f[3]}", case)
                if kind == "custom" and isinstance(value, (str, int)) and not isinstance(value, bool):
                    # the custom value as an instance of a subclass of the base type (what YAML/TOML readers, numpy or a
                    # user's own wrapper hand over): still a value of the base type
                    wrapped = (UserText if isinstance(value, str) else UserNumber)(value)
                    jm = with_value(tv, ename, wrapped)
                    res["evaluations"] += 1
                    res["kinds"]["custom-as-subclass"] += 1
                    try:
                        om = json.loads(json.dumps(sub.conv.unstructure(sub.conv.structure(jm, T), T)))
                    except Exception as ex:
                        ctx.finding((f"raises:{exc_sig(ex)}", exc_frame(ex), f"{site}:custom-as-subclass"), f"{type(wrapped).__name__}({value!r}) at an open {ename} position: {exc_detail(ex)}", case)
                        om = None
                    if om is not None:
                        for f in roundtrip_relation(sub.objects, om, tv, f"root:{rname}"):
                            if f[1] == site or f[1].startswith(site + "|"):
                                ctx.finding((f[0], f[1], f"{site}:custom-as-subclass"), f"{type(wrapped).__name__}({value!r}): {f[3]}", case)
                if kind == "declared":
                    # the declared value offered as the package's own constant (a str / int subclass instance)
                    jm = with_members(tv, ename, getattr(sub.types, ename))
                    res["evaluations"] += 1
                    res["kinds"]["declared-as-member"] += 1
                    try:
                        om = json.loads(json.dumps(sub.conv.unstructure(sub.conv.structure(jm, T), T)))
                    except Exception as ex:
                        ctx.finding((f"raises:{exc_sig(ex)}", exc_frame(ex), f"{site}:declared-as-member"), f"member of {ename} for {value!r}: {exc_detail(ex)}", case)
                        om = None
                    if om is not None:
                        for f in roundtrip_relation(sub.objects, om, tv, f"root:{rname}"):
                            if f[1] == site or f[1].startswith(site + "|"):
                                ctx.finding((f[0], f[1], f"{site}:declared-as-member"), f"member of {ename} for {value!r}: {f[3]}", case)
                if root[0] in ("struct", "msg"):
                    fs = wt.check_obj(obj, root, j, f"root:{rname}", "-", exact_class=False)
                else:
                    fs = wt.check(obj, {"kind": "reference", "name": root[1]}, j, f"root:{rname}")
                for f in fs:
                    if f[1] == site or f[1].startswith(site + "|"):
                        ctx.finding((f[0], f[1], f"{site}:{kind}"), f"value {value!r}: {f[3]}", case)

            if custom_strategy is None:
                cfg = GenCfg(route=route, target=make_target(value, ename, kind == "declared"))
                mini(tvgen.value_strategy(sub.objects, root, cfg), n, (seed, "C13", site, rname, repr(value)),
                     lambda x: run_one(x[0]))
            else:
                def with_custom(x):
                    v, inner_seed = x
                    cfg = GenCfg(route=route, target=make_target(v, ename, False))
                    mini(tvgen.value_strategy(sub.objects, root, cfg), 1, (seed, "C13c", site, rname, inner_seed),
                         lambda y: run_one(y[0], v))
                mini(custom_strategy, n, (seed, "C13cs", site, rname), with_custom)

        for value, kind in plan:
            place(value, kind, k)
        if open_:
            base = e["type"]["name"]
            if base == "string":
                cs = tvgen.strings.filter(lambda s: s not in declared)
            elif base == "integer":
                cs = tvgen.integers.filter(lambda s: s not in declared)
            else:
                cs = tvgen.uintegers.filter(lambda s: s not in declared)
            place(None, "custom", n_custom, st.tuples(cs, st.integers(0, 10**6)))
    res["violations"] = list(ctx.violations.values())
    res["known_hits"] = ctx.known_hits
    res["known_examples"] = ctx.known_examples
    res["kinds"] = dict(res["kinds"])
    return res


def run(ctx: Ctx) -> None:
    sub = valuecheck.subject()
    m, t = sub.model, sub.types
    evaluations = 0
    # --- static -------------------------------------------------------------------------
    for name, e in m.enums.items():
        evaluations += 1
        cls = getattr(t, name, None)
        if not (isinstance(cls, type) and issubclass(cls, enum.Enum)):
            ctx.finding(("missing-enum", name, "-"), "no Enum class of that name", {"enum": name})
            continue
        base = str if e["type"]["name"] == "string" else int
        if not issubclass(cls, base):
            ctx.finding(("enum-base", name, "-"), f"not a {base.__name__} enum", {"enum": name})
        exp = collections.Counter(repr(v["value"]) for v in e["values"])
        got = collections.Counter(repr(mm._value_) for mm in cls.__members__.values())
        evaluations += len(e["values"])
        if exp != got:
            missing = sorted((exp - got).elements())
            extra = sorted((got - exp).elements())
            ctx.finding(("enum-values", name, "-"), f"missing {missing}, extra/altered {extra}", {"enum": name, "missing": missing, "extra": extra})
    # --- dynamic ------------------------------------------------------------------------
    sites = Sites(sub.objects)
    items = []
    nosurface = []
    for ename, refs in sites.enum_refs.items():
        for site in refs:
            ss = sites.sites(site, 3 if ctx.quick else None)
            if not ss:
                nosurface.append(site)
            for root, route in ss:
                if root[0] == "alias":
                    continue  # alias objects cannot be structured directly (known finding of C01); use sites cover them
                items.append((site, ename, root, route))
    k, n_custom = (2, 6) if ctx.quick else (15, 150)
    shards = runner.chunks(items, runner.NPROC * 3)
    results = runner.pmap(_work, [(sh, ctx.seed, k, n_custom) for sh in shards])
    distinct = set()
    kinds: collections.Counter = collections.Counter()
    samples = []
    for r in results:
        evaluations += r["evaluations"]
        distinct |= r["distinct"]
        kinds.update(r["kinds"])
        samples.extend(r["samples"])
        ctx.merge_worker(r)
    unused = sorted(set(m.enums) - set(sites.enum_refs))
    ctx.coverage.update({
        "evaluations": evaluations, "distinct_nontrivial": len(distinct), "rule": RULE, "samples": samples[:6],
        "enumerations": len(m.enums), "use_sites": sum(len(v) for v in sites.enum_refs.values()),
        "site_root_pairs": len(items), "placed_values_by_kind": dict(kinds),
        "enumerations_without_use_site": unused, "sites_without_typed_surface": nosurface,
        "open_enumerations": sorted(n for n in m.enums if m.enum_open(n, True)),
        "exhaustive": False,
        "note": "static part and the (site, declared value) dimension are enumerated completely; surroundings and custom values are sampled",
    })
    ctx.assumptions = ["rejection of an outside value is demanded only if the edited root is invalid under every (non-strict) reading"]


def replay(ctx: Ctx, path: str) -> int:
    sub = valuecheck.subject()
    with open(path) as f:
        rp = json.load(f)
    c = rp["case"]
    if "json" not in c:
        run(ctx)
        return ctx.finish()
    T = sub.root_type(tuple(c["root"]))
    try:
        sub.conv.structure(c["json"], T)
        ok = True
    except Exception:
        ok = False
    if (c["kind"] == "outside") == ok:
        print(f"VIOLATION property=C13 replay={path}\n  value {c['value']!r} at {c['site']}: accepted={ok}")
        return 1
    print("[C13] replay: verdict is right now")
    return 0
