"""C05 — committed packages are exactly what the generator emits for the committed model."""
from __future__ import annotations

import ast
import hashlib
import json
import os
import re
import shutil
from typing import Any, Dict, List, Tuple

from hypothesis import strategies as st

from .. import gen
from ..hyp import mini
from ..runner import Ctx, HarnessError
from ..subject import repo_path

RULE = (
    "the python and rust plugins are run from the working tree (sub-process, scratch directory) under k Hypothesis-"
    "drawn PYTHONHASHSEED values; every top-level statement of types.py (aligned by defined name, ast.dump with "
    "docstring whitespace normalised) and every item of lib.rs (fresh output through rustfmt --edition 2021, byte "
    "comparison, item-aligned report) is compared in both directions with the committed file; the same for whatever "
    "types.py / lib.rs a single invocation with several (or no) --plugin options writes. evaluations = statement/"
    "item comparisons; non-trivial = every statement/item (each is a distinct generated declaration); distinct = its name"
)


def norm_doc(s: str) -> str:
    lines = [ln.rstrip() for ln in s.splitlines()]
    while lines and not lines[0].strip():
        lines.pop(0)
    while lines and not lines[-1].strip():
        lines.pop()
    # indentation of continuation lines is formatter territory: compare stripped lines
    return "\n".join(ln.strip() for ln in lines)


class _DocNorm(ast.NodeTransformer):
    def _fix(self, node):
        self.generic_visit(node)
        body = getattr(node, "body", None)
        if isinstance(body, list):
            for st_ in body:
                if isinstance(st_, ast.Expr) and isinstance(st_.value, ast.Constant) and isinstance(st_.value.value, str):
                    st_.value.value = norm_doc(st_.value.value)
        return node

    visit_Module = visit_ClassDef = visit_FunctionDef = _fix


def stmt_name(node: ast.stmt, idx: int) -> str:
    if isinstance(node, (ast.ClassDef, ast.FunctionDef)):
        return f"def:{node.name}"
    if isinstance(node, ast.Assign) and len(node.targets) == 1 and isinstance(node.targets[0], ast.Name):
        return f"assign:{node.targets[0].id}"
    if isinstance(node, ast.AnnAssign) and isinstance(node.target, ast.Name):
        return f"assign:{node.target.id}"
    if isinstance(node, (ast.Import, ast.ImportFrom)):
        return "import:" + ast.dump(node)
    if isinstance(node, ast.Expr) and isinstance(node.value, ast.Constant):
        return f"doc:{idx}"
    return f"stmt:{idx}:{type(node).__name__}"


def py_statements(src: str) -> Dict[str, str]:
    tree = _DocNorm().visit(ast.parse(src))
    out: Dict[str, str] = {}
    prev = None
    for i, node in enumerate(tree.body):
        name = stmt_name(node, i)
        if name.startswith("doc:") and prev is not None:
            name = f"docof:{prev}"
        else:
            prev = name
        if name in out:
            name = f"{name}#dup{i}"
        out[name] = ast.dump(node)
    return out


ITEM_RE = re.compile(r"^(?:pub\s+)?(struct|enum|type|impl(?:<[^>]*>)?|fn|use|mod|trait)\s+([^\n{;(]*)", re.M)


def rust_items(text: str) -> Dict[str, str]:
    """Top-level items of rustfmt-normalised source, keyed by kind + name; attributes/doc comments attach to the next item."""
    lines = text.splitlines()
    items: Dict[str, str] = {}
    buf: List[str] = []
    depth = 0
    name = None
    for ln in lines:
        if depth == 0 and name is None:
            m = ITEM_RE.match(ln)
            if m:
                name = f"{m.group(1).split('<')[0]} {m.group(2).strip()}"
        buf.append(ln)
        code = re.sub(r'"(?:\\.|[^"\\])*"', '""', ln.split("//")[0])
        depth += code.count("{") - code.count("}")
        if name is not None and depth == 0 and (code.rstrip().endswith("}") or code.rstrip().endswith(";")):
            key = name
            k = 2
            while key in items:
                key = f"{name}#{k}"
                k += 1
            items[key] = "\n".join(buf)
            buf, name = [], None
    if any(b.strip() for b in buf):
        items["<trailing>"] = "\n".join(buf)
    return items


def run(ctx: Ctx) -> None:
    k = 2 if ctx.quick else 6
    seeds: List[int] = []
    mini(st.integers(0, 2**32 - 1), k, (ctx.seed, "C05"), lambda s: seeds.append(s))
    seeds = sorted(set(seeds))[:k] or [0]
    committed_py = open(repo_path("packages", "python", "lsprotocol", "types.py"), encoding="utf-8").read()
    committed_rs = open(repo_path("packages", "rust", "lsprotocol", "src", "lib.rs"), encoding="utf-8").read()
    try:
        cpy = py_statements(committed_py)
    except SyntaxError as e:
        ctx.finding(("syntax-error", "types.py", "committed"), str(e), {})
        cpy = {}
    crs = rust_items(committed_rs)
    evaluations = 0
    distinct = set()
    samples: List[Any] = []
    invocations = [("separate", None)] * len(seeds) + [("combined", ["--plugin", "python", "--plugin", "rust"]), ("combined", ["--plugin", "rust", "--plugin", "python"]),
                                                        ("combined", [])]
    combined_stats = {"invocations": 0, "files_compared": 0, "rejected_by_the_cli": 0}
    for inv_i, (how, plugin_args) in enumerate(invocations):
        hs = seeds[inv_i % len(seeds)]
        d = gen.scratch()
        try:
            files: List[Tuple[str, str]] = []   # (kind, path)
            if how == "separate":
                for plugin in ("python", "rust"):
                    # the last of the separate runs happens "elsewhere": other day/user/machine, other directory-entry order
                    # ... and the first one under `python -O`
                    spelling = "elsewhen" if inv_i == len(seeds) - 1 else ("optimised" if inv_i == 0 else "default")
                    r = gen.run_generator(plugin, os.path.join(d, plugin), hashseed=hs, spelling=spelling)
                    if r.returncode != 0:
                        ctx.finding(("plugin-failed", plugin, "committed-model"), (r.stderr or r.stdout)[-400:], {"plugin": plugin, "hashseed": hs})
                files = [("py", os.path.join(d, "python", "lsprotocol", "types.py")), ("rs", os.path.join(d, "rust", "lsprotocol", "src", "lib.rs"))]
                for kind_, path_ in files:
                    if not os.path.exists(path_):   # a run that "succeeds" without writing its file reproduces nothing
                        ctx.finding(("output-missing", os.path.basename(path_), "separate-run"), f"the plugin run ended without writing {os.path.relpath(path_, d)}",
                                    {"file": os.path.basename(path_), "hashseed": hs})
            else:
                # every way the command line offers to run the two plugins in ONE invocation (several --plugin options, none
                # at all): whatever types.py / lib.rs such a run writes is held to the same comparison
                import subprocess
                cmd = [gen.PY, "-B", "-m", "generator", *plugin_args, "--output-dir", os.path.join(d, "out"), "--test-dir", os.path.join(d, "out", "_tests")]
                env = dict(os.environ, PYTHONHASHSEED=str(hs % (2**32)), PYTHONPATH=repo_path(), PYTHONDONTWRITEBYTECODE="1")
                r = subprocess.run(cmd, cwd=repo_path(), env=env, capture_output=True, text=True, timeout=1800)
                combined_stats["invocations"] += 1
                for root_, _, names in os.walk(os.path.join(d, "out")):
                    if "_tests" in root_.split(os.sep):
                        continue
                    for nm in names:
                        if nm == "types.py" and os.path.basename(root_) == "lsprotocol":
                            files.append(("py", os.path.join(root_, nm)))
                        if nm == "lib.rs" and os.path.basename(root_) == "src":
                            files.append(("rs", os.path.join(root_, nm)))
                if r.returncode != 0 and not files:
                    combined_stats["rejected_by_the_cli"] += 1   # this form is not offered by the tree: nothing to compare
                elif r.returncode == 0 and not files and plugin_args:
                    # (a repeated option means "the last one" to the command line: one file is all such a run owes - but one it owes)
                    ctx.finding(("output-missing", "types.py+lib.rs", "combined-run"),
                                f"`{' '.join(plugin_args)}` exits 0 without writing either file", {"args": plugin_args, "hashseed": hs})
                combined_stats["files_compared"] += len(files)
            fpy = next((p_ for k_, p_ in files if k_ == "py"), os.path.join(d, "<none>"))
            frs = next((p_ for k_, p_ in files if k_ == "rs"), os.path.join(d, "<none>"))
            if os.path.exists(fpy):
                fresh = py_statements(open(fpy, encoding="utf-8").read())
                for name in sorted(set(fresh) | set(cpy)):
                    evaluations += 1
                    distinct.add(("py", name))
                    if name not in cpy:
                        ctx.finding(("missing-in-committed", f"types.py:{name}", "-"), "generator emits a statement the committed file lacks", {"file": "types.py", "name": name, "hashseed": hs})
                    elif name not in fresh:
                        ctx.finding(("extra-in-committed", f"types.py:{name}", "-"), "committed file has a statement the generator does not emit", {"file": "types.py", "name": name, "hashseed": hs})
                    elif fresh[name] != cpy[name]:
                        a, b = fresh[name], cpy[name]
                        i = next((i for i in range(min(len(a), len(b))) if a[i] != b[i]), min(len(a), len(b)))
                        ctx.finding(("output-differs", f"types.py:{name}", "-"),
                                    f"generated ...{a[max(0, i - 60):i + 60]}... committed ...{b[max(0, i - 60):i + 60]}...",
                                    {"file": "types.py", "name": name, "hashseed": hs})
                # statement order
                evaluations += 1
                if [n for n in fresh if n in cpy] != [n for n in cpy if n in fresh]:
                    ctx.finding(("order-differs", "types.py", "-"), "top-level statements are ordered differently", {"hashseed": hs})
                if not samples:
                    samples.append({"file": "types.py", "statement": "def:Position", "ast_prefix": fresh.get("def:Position", "")[:160]})
            if os.path.exists(frs):
                gen.rustfmt(frs)
                text = open(frs, encoding="utf-8").read()
                fresh_rs = rust_items(text)
                same_bytes = text == committed_rs
                for name in sorted(set(fresh_rs) | set(crs)):
                    evaluations += 1
                    distinct.add(("rs", name))
                    if name not in crs:
                        ctx.finding(("missing-in-committed", f"lib.rs:{name}", "-"), "generator emits an item the committed file lacks", {"file": "lib.rs", "name": name, "hashseed": hs})
                    elif name not in fresh_rs:
                        ctx.finding(("extra-in-committed", f"lib.rs:{name}", "-"), "committed file has an item the generator does not emit", {"file": "lib.rs", "name": name, "hashseed": hs})
                    elif fresh_rs[name] != crs[name]:
                        ctx.finding(("output-differs", f"lib.rs:{name}", "-"), "item text differs after rustfmt", {"file": "lib.rs", "name": name, "hashseed": hs})
                evaluations += 1
                if not same_bytes and not ctx.violations:
                    ctx.finding(("output-differs", "lib.rs", "bytes"), "files differ although all aligned items are equal (order or whitespace)", {"hashseed": hs})
                if len(samples) < 2:
                    samples.append({"file": "lib.rs", "item": "struct Position", "text": fresh_rs.get("struct Position", "")[:200]})
        finally:
            shutil.rmtree(d, ignore_errors=True)
    samples.append({"hash_seeds": seeds})
    ctx.coverage.update({
        "evaluations": evaluations, "distinct_nontrivial": len(distinct), "rule": RULE, "samples": samples,
        "exhaustive": True, "python_statements": len(cpy), "rust_items": len(crs), "hash_seeds": seeds,
        "single_invocation_forms": combined_stats,
    })
    ctx.assumptions = ["rustfmt --edition 2021 is the formatter pass of the build; docstring text is compared line-stripped"]
    if len(cpy) < 100 or len(crs) < 100:
        raise HarnessError("parsers recognised implausibly few statements/items")


def replay(ctx: Ctx, path: str) -> int:
    run(ctx)
    return ctx.finish()
