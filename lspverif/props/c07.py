"""C07 — generated Rust crate declares the metamodel's wire schema."""
from __future__ import annotations

import os
import shutil
from typing import Any, List

from .. import gen
from ..refmodel import load_doc
from ..runner import Ctx, HarnessError
from ..rustcheck import RustOracle
from ..subject import repo_path

RULE = (
    "exhaustive over every item of the lib.rs that the rust plugin emits from the working tree for generator/lsp.json "
    "(sub-process, rustfmt-normalised; C05 ties it to the committed copy, which is analysed as well): every structure "
    "-> same-named struct, serde field-name set == flattened property names (rename or camelCase rule), mapped type "
    "tree, Option <=> optional or null-admitting, feature gate <=> proposed; every enumeration's discriminants (rename / "
    "= n and both hand-written impls); every `or` alias untagged with one variant per alternative; message structs and "
    "method-enum renames; reverse direction (items that correspond to nothing). evaluations = facet comparisons; "
    "non-trivial/distinct = declared items of the metamodel covered"
)


def analyse(ctx: Ctx, doc: dict, text: str, which: str) -> int:
    o = RustOracle(doc, text)
    for f in o.run():
        ctx.finding((f[0], f[1], which), f[3], {"item": f[1], "file": which, "detail": f[3]})
    ctx.coverage.setdefault("parsed", {})[which] = {
        "structs": len(o.structs), "enums": len(o.enums), "type_items": len(o.types), "impls": len(o.impls)}
    return o.evaluations


def run(ctx: Ctx) -> None:
    doc = load_doc(repo_path("generator", "lsp.json"))
    evaluations = 0
    d = gen.scratch()
    try:
        r = gen.run_generator("rust", d, hashseed=ctx.seed % 1000)
        if r.returncode != 0:
            ctx.finding(("plugin-failed", "rust", "committed-model"), (r.stderr or r.stdout)[-400:], {})
        else:
            f = os.path.join(d, "lsprotocol", "src", "lib.rs")
            gen.rustfmt(f)
            evaluations += analyse(ctx, doc, open(f, encoding="utf-8").read(), "generated")
    finally:
        shutil.rmtree(d, ignore_errors=True)
    committed = open(repo_path("packages", "rust", "lsprotocol", "src", "lib.rs"), encoding="utf-8").read()
    evaluations += analyse(ctx, doc, committed, "committed")
    m_items = len(doc["structures"]) + len(doc["enumerations"]) + len(doc["typeAliases"]) + len(doc["requests"]) * 2 + len(doc["notifications"])
    ctx.coverage.update({
        "evaluations": evaluations, "distinct_nontrivial": m_items, "rule": RULE, "exhaustive": True,
        "samples": [{"struct": "Position", "fields": ["line: u32", "character: u32"]},
                    {"enum": "MarkupKind", "discriminants": ["plaintext", "markdown"]}],
    })
    ctx.assumptions = [
        "declarations only: serde's runtime behaviour (untagged variant choice) is not exercised (no cargo registry offline)",
        "method-enum variants of proposed methods are not required to be feature-gated (the statement is silent)",
        "names of anonymous-literal structs are the plugin's choice; they are matched structurally",
    ]


def replay(ctx: Ctx, path: str) -> int:
    run(ctx)
    return ctx.finish()
