"""C02 — objects built with the public constructors serialise to the exact spec JSON."""
from __future__ import annotations

import json
from typing import List, Tuple

from .. import valuecheck
from ..oracle import jeq, roundtrip_relation, short
from ..runner import Ctx
from ..tvgen import TV, GenCfg
from .c01 import exc_detail, exc_frame, exc_sig

RULE = (
    "typed values as in C01, turned into nested constructor calls (snake_case keywords, the class of the intended "
    "union alternative, enum positions as member or raw value, tuples as tuple, decimals as float); oracle: the JSON of "
    "unstructure(obj, Class) equals NF(tv) exactly (metamodel key names, both directions, null-admitting/literal/"
    "envelope properties always present, other unset optionals absent), then structure+unstructure of that output is "
    "a fix-point. non-trivial/distinct as in C01"
)


def body(sub, root: tuple, tv: TV, extra=None) -> List[Tuple[str, str, str, str]]:
    rname = valuecheck.root_name(root)
    T = sub.root_type(root)
    try:
        obj = sub.build(tv)
    except Exception as e:
        fr = exc_frame(e)
        return [(f"raises:{exc_sig(e)}", fr if fr != "?" else f"root:{rname}", "construct", f"root {rname}: {exc_detail(e)}")]
    try:
        raw = sub.conv.unstructure(obj, T)
        o = json.loads(json.dumps(raw))
    except Exception as e:
        fr = exc_frame(e)
        return [(f"raises:{exc_sig(e)}", fr if fr != "?" else f"root:{rname}", "unstructure", f"root {rname}: {exc_detail(e)}")]
    fs = roundtrip_relation(sub.objects, o, tv, f"root:{rname}", "-", strict=True)
    if fs:
        return [(f[0], f[1], "ctor:" + f[2], f[3]) for f in fs]
    nf = sub.nf(tv)
    if not jeq(o, nf):
        return [("changed", f"root:{rname}", "ctor:nf", f"output {short(o, 200)} != normal form {short(nf, 200)}")]
    # fix-point leg (goes through the parsing hooks: the C01 signatures apply)
    try:
        o2 = json.loads(json.dumps(sub.conv.unstructure(sub.conv.structure(o, T), T)))
    except Exception as e:
        fr = exc_frame(e)
        return [(f"raises:{exc_sig(e)}", fr if fr != "?" else f"root:{rname}", "structure", f"root {rname}: {exc_detail(e)}")]
    if not jeq(o2, o):
        fs = roundtrip_relation(sub.objects, o2, tv, f"root:{rname}")
        if fs:
            return fs
        return [("changed", f"root:{rname}", "fixpoint", f"{short(o, 200)} re-serialised as {short(o2, 200)}")]
    return []


def cfg_for(root: tuple):
    return GenCfg(decimal_ints=False)


valuecheck.register("C02", body, cfg_for)


def run(ctx: Ctx) -> None:
    ctx.assumptions = [
        "reference interpreter of lsp.json (lspverif/refmodel.py); snake_case derivation re-implemented independently",
        "alias roots are built as the value of their type and unstructured with the alias object",
    ]
    valuecheck.run_value_property(ctx, "C02", n_quick=120, n_thorough=1000, rule=RULE)


def replay(ctx: Ctx, path: str) -> int:
    return valuecheck.replay_value_case(ctx, "C02", path)
