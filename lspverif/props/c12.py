"""C12 — LSP integer ranges are enforced exactly at construction and parse time."""
from __future__ import annotations

import collections
import decimal
import fractions
import json
from typing import Any, Dict, List

import attrs
from hypothesis import strategies as st

from .. import runner, tvgen, valuecheck
from ..hyp import mini
from ..refmodel import INT_MAX, INT_MIN, UINT_MAX, UINT_MIN, snake
from ..runner import Ctx
from ..tvgen import GenCfg, P, erase, to_json

RULE = (
    "every (class, attribute) whose flattened metamodel type is directly integer/uinteger (structures, plus "
    "ResponseError.code) x the boundary set {min-1,min,min+1,-1,0,1,max-1,max,max+1,+-2^32,+-2^63,2^64,+-10^30} exhaustively and "
    "random ints, each inside a generated valid surrounding object, through the constructor and through the converter "
    "(constructor also with the number wrapped in an int subclass or given as a member of the package's integer enumerations); "
    "oracle: accepted <=> in range, same verdict at both entry points. The two validator functions are also driven "
    "with arbitrary Python values/instances/attributes: return True or raise ValueError naming class and attribute; "
    "for ints the verdict equals the range predicate. non-trivial = out-of-range or boundary int, or non-int value; "
    "distinct = (class, attribute, value)"
)

RANGES = {"integer": (INT_MIN, INT_MAX), "uinteger": (UINT_MIN, UINT_MAX)}


class LineNumber(int):
    """an int subclass as user code has them (NewType-like wrappers, IntEnum members, numpy-style ints)"""


def int_enum_members(sub) -> List[Any]:
    """members of the package's own integer enumerations: ints that callers pass where an integer is declared
    (ResponseError(code=ErrorCodes.MethodNotFound, ...))."""
    import enum
    out = []
    for name in sub.model.enums:
        cls = getattr(sub.types, name, None)
        if isinstance(cls, type) and issubclass(cls, enum.Enum) and issubclass(cls, int):
            out.extend(list(cls))
    return out


def boundary(lo: int, hi: int) -> List[int]:
    return sorted({lo - 1, lo, lo + 1, -1, 0, 1, hi - 1, hi, hi + 1, 2**32, -(2**32), 2**63, -(2**63), 2**64, 10**30, -(10**30)})


def targets(sub) -> List[tuple]:
    out = []
    for name in sub.model.structs:
        for p in sub.model.flat_props(name):
            t = p["type"]
            if t["kind"] == "base" and t["name"] in RANGES:
                out.append((("struct", name), p))
    for p in tvgen.RESPONSE_ERROR_PROPS:
        if p["type"]["kind"] == "base" and p["type"]["name"] in RANGES:
            out.append((("special", "ResponseError"), p))
    return out


def _work(args) -> dict:
    items, seed, k, n_rand = args
    sub = valuecheck.subject()
    ctx = Ctx("C12", "quick", seed)
    res: Dict[str, Any] = {"evaluations": 0, "distinct": set(), "samples": [], "accepted": 0, "rejected": 0, "int_subclass_probes": 0}
    members = int_enum_members(sub)
    member_values = sorted({m.value for m in members})
    for key, p in items:
        cls = sub.class_for(key)
        cname = cls.__name__
        base = p["type"]["name"]
        lo, hi = RANGES[base]
        ploc = sub.objects.prop_locus(key, p)
        attr = snake(p["name"])

        def probe(tv, v: int) -> None:
            j = erase(tv)
            j[p["name"]] = v
            try:
                kwargs = {snake(kk): sub.build(vv) for kk, vv in tv.props.items()}
            except Exception:
                res["surrounding_not_built"] = res.get("surrounding_not_built", 0) + 1
                return  # the valid surrounding cannot be built: C02's matter
            kwargs[attr] = v
            expect = lo <= v <= hi
            res["evaluations"] += 2
            try:
                cls(**kwargs)
                c_ok = True
            except Exception:
                c_ok = False
            try:
                obj = sub.conv.structure(j, cls)
                p_ok = True
                if getattr(obj, attr) != v:
                    ctx.finding(("changed", ploc, "converter"), f"{cname}.{attr}: {v} read as {getattr(obj, attr)!r}",
                                {"class": cname, "attr": attr, "value": v, "json": j})
            except Exception:
                p_ok = False
            res["accepted" if expect else "rejected"] += 1
            if not expect or v in (lo, hi, lo + 1, hi - 1):
                res["distinct"].add((cname, attr, v))
            case = {"class": cname, "attr": attr, "value": v, "json": j, "base": base}
            if c_ok != expect:
                ctx.finding(("wrong-verdict", ploc, "constructor"), f"{cname}({attr}={v}) {'accepted' if c_ok else 'rejected'}; {base} range is [{lo},{hi}]", case)
            if p_ok != expect:
                ctx.finding(("wrong-verdict", ploc, "converter"), f"structure({{'{p['name']}': {v}}}, {cname}) {'accepted' if p_ok else 'rejected'}; {base} range is [{lo},{hi}]", case)
            if c_ok != p_ok:
                ctx.finding(("verdicts-differ", ploc, "-"), f"{cname}.{attr}={v}: constructor {c_ok}, converter {p_ok}", case)
            # the same number as an instance of an int subclass (constructor path only: JSON has plain ints)
            for w in [LineNumber(v)] + [m for m in members if m.value == v][:2]:
                res["evaluations"] += 1
                res["int_subclass_probes"] += 1
                kwargs[attr] = w
                try:
                    cls(**kwargs)
                    w_ok = True
                except Exception:
                    w_ok = False
                if w_ok != expect:
                    ctx.finding(("wrong-verdict", ploc, "constructor-int-subclass"),
                                f"{cname}({attr}={w!r}) {'accepted' if w_ok else 'rejected'}; {base} range is [{lo},{hi}]",
                                {**case, "wrapped_as": type(w).__name__})

        strat = tvgen.value_strategy(sub.objects, key, GenCfg(route=[ploc], decimal_ints=False))
        bset = boundary(lo, hi)

        def one(x):
            tv, _ = x
            for v in bset + member_values[:: max(1, len(member_values) // 6)]:
                probe(tv, v)

        mini(strat, k, (seed, "C12", cname, attr, "b"), one)

        def two(x):
            (tv, _), v = x
            probe(tv, v)

        mini(st.tuples(strat, st.one_of(st.integers(), st.integers(lo - 5, lo + 5), st.integers(hi - 5, hi + 5))),
             n_rand, (seed, "C12", cname, attr, "r"), two)
        if len(res["samples"]) < 2:
            res["samples"].append({"class": cname, "attribute": attr, "base": base, "boundary_values": bset[:6]})
    res["violations"] = list(ctx.violations.values())
    res["known_hits"] = ctx.known_hits
    res["known_examples"] = ctx.known_examples
    return res


def validators_alone(ctx: Ctx, sub, n: int) -> Dict[str, int]:
    import importlib
    V = importlib.import_module(f"{sub.package}.validators")
    stats = collections.Counter()

    class Plain:
        pass

    class Outer:
        class Inner:
            pass

    import numbers

    class Declared:      # claims to be an integer (numpy-style registration) without behaving like one
        def __repr__(self):
            return "Declared()"

    numbers.Integral.register(Declared)

    class Indexable:     # converts to an int on request, but is not one
        def __init__(self, v):
            self.v = v

        def __index__(self):
            return self.v

        def __int__(self):
            return self.v

        def __repr__(self):
            return f"Indexable({self.v})"

    class Touchy(int):   # an int whose comparisons with plain ints misbehave
        def __le__(self, other):
            raise RuntimeError("compare")
        __ge__ = __lt__ = __gt__ = __le__

    class Liar(int):     # an int whose comparisons always say yes
        def __le__(self, other):
            return True
        __ge__ = __lt__ = __gt__ = __le__

    class Unprintable:   # cannot be turned into text at all
        def __str__(self):
            raise RuntimeError("no text")
        __repr__ = __str__

        def __format__(self, spec):
            raise RuntimeError("no text")

    class UnprintableInt(int):   # an out-of-range int that cannot be turned into text
        def __str__(self):
            raise RuntimeError("no text")
        __repr__ = __str__

        def __format__(self, spec):
            raise RuntimeError("no text")

    Position = sub.types.Position
    instances = [Plain(), Outer.Inner(), Position(line=0, character=0), None, 3, "s"]
    attributes = [attrs.fields(Position).line, "some_name", "", 7]
    values = st.one_of(
        st.none(), st.booleans(), st.integers(), st.integers(-(2**31) - 3, -(2**31) + 3), st.integers(2**31 - 3, 2**31 + 3),
        st.floats(allow_nan=True, allow_infinity=True), st.text(max_size=5), st.binary(max_size=4),
        st.lists(st.integers(), max_size=2), st.dictionaries(st.text(max_size=2), st.integers(), max_size=2),
        st.fractions(), st.decimals(allow_nan=True), st.complex_numbers(allow_nan=False),
        st.sampled_from([2.0, 0.0, 1e10, object, int]),
        st.integers().map(LineNumber), st.integers(-3, 3).map(LineNumber),
        st.sampled_from([Declared(), Indexable(3), Indexable(-1), Indexable(2**40)]), st.sampled_from(int_enum_members(sub) or [LineNumber(1)]),
        # containers and other shapes an error message has to cope with
        st.lists(st.integers(), max_size=3).map(tuple), st.sampled_from([(), (1,), (1, 2), ((),), ("%s",), ("a", "b", "c")]),
        st.frozensets(st.integers(), max_size=2), st.sets(st.text(max_size=2), max_size=2), st.binary(max_size=3).map(bytearray),
        st.sampled_from([range(3), "%s", "%d %d", "{}", "{0}", "{value}", b"%s", slice(1, 2), Ellipsis, NotImplemented]),
        # values whose text is long, very long (beyond the interpreter's int-to-str limit), or not available
        # int subclasses that define comparisons of their own (in and out of range)
        st.sampled_from([Touchy(5), Touchy(-1), Touchy(2**40), Liar(7), Liar(2**40), Liar(-(2**40)), Liar(-1)]),
        st.sampled_from([10**5000, -(10**5000), 10**4299, 2**20000, "x" * 100000, Unprintable(), UnprintableInt(2**40), UnprintableInt(-1)]),
    )
    for fname, (lo, hi) in (("integer_validator", RANGES["integer"]), ("uinteger_validator", RANGES["uinteger"])):
        fn = getattr(V, fname)

        def one(x):
            inst_i, attr_i, v = x
            inst = instances[inst_i % len(instances)]
            attr = attributes[attr_i % len(attributes)]
            stats["calls"] += 1
            try:
                shown = repr(v)
                shown = shown if len(shown) < 200 else shown[:100] + f"... ({len(shown)} characters)"
            except Exception:
                shown = f"<{type(v).__name__} without repr>"
            case = {"validator": fname, "instance": repr(inst), "attribute": repr(attr), "value": shown}
            try:
                r = fn(inst, attr, v)
            except ValueError as e:
                stats["raised"] += 1
                msg = str(e)
                aname = attr.name if hasattr(attr, "name") else str(attr)
                if type(inst).__qualname__ not in msg or aname not in msg:
                    ctx.finding(("message", fname, "-"), f"ValueError does not name class/attribute: {msg!r}", case)
                if isinstance(v, int) and not isinstance(v, bool) and lo <= int.__index__(v) <= hi:
                    ctx.finding(("wrong-verdict", fname, "rejects-in-range"), f"{shown} rejected", case)
                return
            except Exception as e:
                ctx.finding((f"raises:{type(e).__name__}", fname, "-"), f"{e!r} for value {shown}", case)
                return
            stats["returned"] += 1
            if r is not True:
                ctx.finding(("wrong-return", fname, "-"), f"returned {r!r} for {shown}", case)
            if isinstance(v, int) and not isinstance(v, bool):
                if not (lo <= int.__index__(v) <= hi):   # (the number itself, whatever comparisons the subclass defines)
                    ctx.finding(("wrong-verdict", fname, "accepts-out-of-range"), f"{shown} accepted", case)
            elif not isinstance(v, bool):
                # a value that is not an int at all must not pass a range validator
                ctx.finding(("wrong-verdict", fname, "accepts-non-int"), f"{shown} ({type(v).__name__}) accepted", case)

        mini(st.tuples(st.integers(0, 50), st.integers(0, 50), values), n, (ctx.seed, "C12v", fname), one)
    return dict(stats)


def run(ctx: Ctx) -> None:
    sub = valuecheck.subject()
    tg = targets(sub)
    k, n_rand = (2, 30) if ctx.quick else (20, 1500)
    shards = runner.chunks(tg, runner.NPROC * 2)
    results = runner.pmap(_work, [(sh, ctx.seed, k, n_rand) for sh in shards])
    evaluations = 0
    distinct = set()
    samples = []
    acc = rej = 0
    subclass_probes = sum(r["int_subclass_probes"] for r in results)
    for r in results:
        evaluations += r["evaluations"]
        distinct |= r["distinct"]
        samples.extend(r["samples"])
        acc += r["accepted"]
        rej += r["rejected"]
        ctx.merge_worker(r)
    vstats = validators_alone(ctx, sub, 3000 if ctx.quick else 100000)
    evaluations += vstats.get("calls", 0)
    samples.append({"validator_calls": vstats})
    ctx.coverage.update({
        "evaluations": evaluations, "distinct_nontrivial": len(distinct), "rule": RULE, "samples": samples[:6],
        "integer_typed_attributes": len(tg), "in_range_probes": acc, "out_of_range_probes": rej, "int_subclass_probes": subclass_probes,
        "validator_function_calls": vstats, "exhaustive": False,
        "probes_not_judged_surrounding_not_built": sum(r.get("surrounding_not_built", 0) for r in results),
        "note": "the attribute x boundary-set dimension is enumerated completely; surroundings and extra ints are sampled",
    })
    ctx.assumptions = ["bool is excluded from the int verdict comparison (the property speaks of ints; Python's bool is an int subclass)"]


def replay(ctx: Ctx, path: str) -> int:
    sub = valuecheck.subject()
    with open(path) as f:
        rp = json.load(f)
    c = rp["case"]
    if "json" not in c:
        print("[C12] replay of a validator-function case: re-run ./check C12")
        run(ctx)
        return ctx.finish()
    cls = getattr(sub.types, c["class"])
    lo, hi = RANGES[c["base"]]
    expect = lo <= c["value"] <= hi
    try:
        sub.conv.structure(c["json"], cls)
        ok = True
    except Exception:
        ok = False
    if ok != expect:
        print(f"VIOLATION property=C12 replay={path}\n  {c['class']}.{c['attr']}={c['value']} converter verdict {ok}, expected {expect}")
        return 1
    print("[C12] replay: converter verdict is right now (constructor verdict: re-run ./check C12)")
    return 0
