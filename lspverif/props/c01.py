"""C01 — parsing then re-serialising any spec-valid LSP JSON value loses nothing."""
from __future__ import annotations

import json
import os
import warnings
from typing import Any, List, Tuple

from .. import valuecheck
from ..oracle import roundtrip_relation
from ..runner import Ctx
from ..tvgen import TV, erase

RULE = (
    "for every root type (structures, aliases, request/response/notification envelopes, and/params types, "
    "ResponseError[Message]) typed metamodel-valid values are drawn by Hypothesis (required properties always, "
    "every subset of optional ones, every union alternative, custom open-enum values, LSPAny payloads, boundary "
    "ints, non-ASCII text); j=erase(tv) is structured as the root type and unstructured again; oracle: o ~ j up to "
    "the documented null rule, directed by the typed reading. non-trivial = crosses >=1 union, or has >=1 optional "
    "property set, or carries an LSPAny payload; distinct = sha256 of (root, canonical JSON)"
)


def _leaf(e: BaseException) -> BaseException:
    for _ in range(30):
        subs = getattr(e, "exceptions", None)
        if not subs:
            break
        e = subs[0]
    return e


def exc_sig(e: BaseException) -> str:
    """innermost exception type (exception groups of cattrs are unwrapped)."""
    return type(_leaf(e)).__name__


def exc_frame(e: BaseException) -> str:
    """last frames inside the package under test / cattrs-generated code, across nested exception groups."""
    names: List[str] = []
    for _ in range(30):
        tb = e.__traceback__
        while tb is not None:
            code = tb.tb_frame.f_code
            fn = code.co_filename
            if "lsprotocol" in fn or fn.startswith("<cattrs generated"):
                if not names or names[-1] != code.co_name:
                    names.append(code.co_name)
            tb = tb.tb_next
        subs = getattr(e, "exceptions", None)
        if not subs:
            break
        e = subs[0]
    return ">".join(names[-3:]) if names else "?"


def exc_detail(e: BaseException) -> str:
    e = _leaf(e)
    return f"{type(e).__name__}: {str(e)[:200]}"


def first_union_ctx(tv: TV) -> str:
    from ..tvgen import U, walk
    for _, n in walk(tv):
        if isinstance(n, U):
            return f"{n.occ}#{n.idx}"
    return "-"


def body(sub, root: tuple, tv: TV, extra=None) -> List[Tuple[str, str, str, str]]:
    j = erase(tv)
    T = sub.root_type(root)
    rname = valuecheck.root_name(root)
    try:
        with warnings.catch_warnings():   # also in a process run with warnings as errors
            warnings.simplefilter("error")
            obj = sub.conv.structure(j, T)
    except Exception as e:  # any exception on a valid value is a violation
        fr = exc_frame(e)
        return [(f"raises:{exc_sig(e)}", fr if fr != "?" else f"root:{rname}", "structure", f"root {rname}: {exc_detail(e)}")]
    try:
        with warnings.catch_warnings():
            warnings.simplefilter("error")
            o = json.loads(json.dumps(sub.conv.unstructure(obj, T)))
    except Exception as e:
        fr = exc_frame(e)
        return [(f"raises:{exc_sig(e)}", fr if fr != "?" else f"root:{rname}", "unstructure", f"root {rname}: {exc_detail(e)}")]
    return roundtrip_relation(sub.objects, o, tv, f"root:{rname}")


valuecheck.register("C01", body)


def coverage_guided(ctx: Ctx, procs: int, runs: int) -> dict:
    """thorough-tier extra: atheris/libFuzzer campaigns over the same typed-value strategy (see lspverif/fuzz_c01.py)."""
    import re
    import shutil
    import subprocess
    import sys
    from .. import gen, runner
    deps = os.path.join(runner.VERIF, ".deps")
    if not os.path.isdir(os.path.join(deps, "atheris")):
        return {"skipped": "atheris is not installed under /verif/.deps (setup.sh unpacks it from the offline wheelhouse)"}
    d = gen.scratch("lspverif-fuzz-")
    try:
        ps = []
        for i in range(procs):
            os.makedirs(os.path.join(d, f"corpus{i}"))
            cmd = [sys.executable, "-B", "-m", "lspverif.fuzz_c01", os.path.join(d, f"f{i}.jsonl"), f"-runs={runs}",
                   f"-seed={(ctx.seed * 1000 + i) % (2**31) or 1}", "-max_len=4096", "-len_control=0", os.path.join(d, f"corpus{i}")]
            ps.append(subprocess.Popen(cmd, cwd=runner.VERIF, stdout=subprocess.DEVNULL, stderr=subprocess.PIPE, text=True,
                                       env=dict(os.environ, PYTHONHASHSEED="0", PYTHONDONTWRITEBYTECODE="1")))
        stats = {"campaigns": procs, "runs_per_campaign": runs, "target_executions": 0, "libfuzzer_cov": [], "findings": 0}
        for i, pr in enumerate(ps):
            _, err = pr.communicate(timeout=7200)
            m = re.findall(r"cov: (\d+) ft: (\d+)", err or "")
            if m:
                stats["libfuzzer_cov"].append([int(m[-1][0]), int(m[-1][1])])
            path = os.path.join(d, f"f{i}.jsonl")
            if not os.path.exists(path):
                continue
            for line in open(path):
                rec = json.loads(line)
                if "progress" in rec:
                    stats["target_executions"] = max(stats["target_executions"], 0)
                    stats.setdefault("_p", {})[i] = rec["progress"]
                elif rec.get("known"):
                    ctx.finding(tuple(rec["signature"]), "found by the coverage-guided campaign", None)
                else:
                    stats["findings"] += 1
                    ctx.finding(tuple(rec["signature"]), rec["detail"] + " [coverage-guided campaign]", rec["case"])
        stats["target_executions"] = sum(stats.pop("_p", {}).values())
        return stats
    finally:
        shutil.rmtree(d, ignore_errors=True)


def share_equal(j, pool=None):
    """the same JSON value, with equal containers represented by ONE Python object (a payload built in Python rather
    than parsed from text: `r = {...}; {"range": r, "selectionRange": r}`)"""
    pool = {} if pool is None else pool
    if isinstance(j, dict):
        out = {k: share_equal(v, pool) for k, v in j.items()}
    elif isinstance(j, list):
        out = [share_equal(v, pool) for v in j]
    else:
        return j
    if not out:
        return out
    key = json.dumps(out, sort_keys=True, default=repr)
    return pool.setdefault(key, out)


def as_mappings(tv):
    """erase(tv) with every typed object (structure, literal, map) given as a read-only mapping instead of a dict;
    payload positions (LSPAny...) keep plain containers, since they are handed through"""
    import types as _types
    from ..tvgen import A, L, Mp, S, T, U
    if isinstance(tv, S):
        return _types.MappingProxyType({k: as_mappings(v) for k, v in tv.props.items()})
    if isinstance(tv, Mp):
        return _types.MappingProxyType({k: as_mappings(v) for k, v in tv.items.items()})
    if isinstance(tv, (L, T)):
        return [as_mappings(v) for v in tv.items]
    if isinstance(tv, U):
        return as_mappings(tv.child)
    return erase(tv)


def with_shared_payloads(tv):
    """erase(tv) where every container payload (LSPAny / LSPObject / LSPArray position) holds the same sub-object twice"""
    from ..tvgen import A, L, Mp, S, T, U
    if isinstance(tv, S):
        return {k: with_shared_payloads(v) for k, v in tv.props.items()}
    if isinstance(tv, Mp):
        return {k: with_shared_payloads(v) for k, v in tv.items.items()}
    if isinstance(tv, (L, T)):
        return [with_shared_payloads(v) for v in tv.items]
    if isinstance(tv, U):
        return with_shared_payloads(tv.child)
    if isinstance(tv, A):
        v = erase(tv)
        if isinstance(v, dict) and v:
            return {"vfOnce": v, "vfAgain": v}
        if isinstance(v, list) and v:
            return [v, v]
        return v
    return erase(tv)


def representation_variants(sub, root: tuple, tv: TV) -> List[Tuple[str, str, str, str]]:
    """the Python representation of the JSON input is not part of the input: shared sub-objects, mappings that are not
    dicts - the outcome is that of the plain dict/list tree"""
    T = sub.root_type(root)
    rname = valuecheck.root_name(root)

    def run(j):
        try:
            obj = sub.conv.structure(j, T)
            return ["ok", json.dumps(json.loads(json.dumps(sub.conv.unstructure(obj, T))), sort_keys=True), obj]
        except Exception as e:
            return ["raised", exc_sig(e), None]

    base = run(erase(tv))
    out = []
    shared = with_shared_payloads(tv)
    unshared = json.loads(json.dumps(shared))
    for label, j in (("shared-subobjects", share_equal(erase(tv))), ("mappings", as_mappings(tv)), ("payload-held-twice", shared)):
        if label == "payload-held-twice":
            if shared == erase(tv):
                continue
            base = run(unshared)
        got = run(j)
        if got[:2] != base[:2] and base[0] == "ok":
            out.append((f"representation:{label}", f"root:{rname}", first_union_ctx(tv), f"plain containers give {str(base[:2])[:120]}, {label} give {str(got[:2])[:160]}"))
        elif base[0] == "ok" and got[0] == "ok":
            try:
                same = got[2] == base[2]
            except Exception as e:
                out.append((f"representation-object:{label}", f"root:{rname}", first_union_ctx(tv), f"comparing the two structured objects raises {type(e).__name__}: {e}"))
                same = True
            if not same:
                out.append((f"representation-object:{label}", f"root:{rname}", first_union_ctx(tv), f"structured object differs from the one built from plain containers: {str(got[2])[:160]}"))
    return out


def _pinned_work(args) -> dict:
    """k routed cases per (union occurrence, alternative, use site): the free generator reaches a given alternative of a
    deep union with a few percent probability per case; pinning makes every alternative certain."""
    from .. import tvgen
    from ..hyp import mini
    items, seed, k = args
    sub = valuecheck.subject()
    lctx = Ctx("C01", "quick", seed)
    res = {"evaluations": 0, "hashes": set(), "pairs": set()}
    for (occ, idx, root, route) in items:
        rname = valuecheck.root_name(root)
        strat = tvgen.value_strategy(sub.objects, root, tvgen.GenCfg(route=route))

        def one(x):
            tv, _ = x
            res["evaluations"] += 1
            res["pairs"].add(f"{occ}#{idx}")
            res["hashes"].add(tvgen.canon_hash([rname, erase(tv)]))
            for f in body(sub, root, tv) + representation_variants(sub, root, tv):
                lctx.finding((f[0], f[1], f[2]), f[3], {"root": list(root), "json": erase(tv), "tv": tvgen.to_json(tv), "extra": None})

        mini(strat, k, (seed, "C01-pinned", occ, idx, rname), one)
    res["violations"] = list(lctx.violations.values())
    res["known_hits"] = lctx.known_hits
    res["known_examples"] = lctx.known_examples
    return res


def pinned_alternatives(ctx: Ctx, sites_per_occurrence, k: int) -> dict:
    from .. import runner
    from ..tvgen import Sites
    sub = valuecheck.subject()
    sites = Sites(sub.objects)
    items = []
    for locus, t in sub.model.union_occurrences():
        if locus.split("|")[0] == "alias:LSPAny":
            continue
        for root, route in sites.sites(locus, sites_per_occurrence):
            for i in range(len(t["items"])):
                items.append((locus, i, root, route + [f"{locus}|{i}"]))
    results = runner.pmap(_pinned_work, [(sh, ctx.seed, k) for sh in runner.chunks(items, runner.NPROC * 3)])
    ev, hashes, pairs = 0, set(), set()
    for r in results:
        ev += r["evaluations"]
        hashes |= r["hashes"]
        pairs |= r["pairs"]
        ctx.merge_worker(r)
    return {"evaluations": ev, "distinct": len(hashes), "pinned_items": len(items), "cases_per_item": k, "pairs_reached": len(pairs)}


_MATRIX_RUNNER = r"""
import json, sys
cases = json.load(open(sys.argv[1]))
from lsprotocol import converters, types
conv = converters.get_converter()
out = []
for name, j in cases:
    T = getattr(types, name)
    try:
        obj = conv.structure(j, T)
    except Exception:
        out.append(["raised"]); continue
    try:
        out.append(["ok", json.dumps(json.loads(json.dumps(conv.unstructure(obj, T))), sort_keys=True)])
    except Exception as e:
        out.append(["unstructure-raised", type(e).__name__])
json.dump(out, open(sys.argv[2], "w"))
"""


def _matrix_run(args) -> dict:
    import subprocess
    exe, cases_path, out_path, script, pythonpath = args
    exe, *flags = exe.split(" ")
    r = subprocess.run([exe, "-B", *flags, script, cases_path, out_path], capture_output=True, text=True, timeout=1800,
                       env={"PYTHONPATH": pythonpath, "PYTHONHASHSEED": "0", "PYTHONDONTWRITEBYTECODE": "1", "PATH": "/usr/bin:/bin"})
    if r.returncode != 0 or not os.path.exists(out_path):
        return {"exe": args[0], "error": (r.stderr or r.stdout).strip().splitlines()[-1:] or ["no output"], "trace": (r.stderr or r.stdout)[-3000:]}
    return {"exe": args[0], "outcomes": json.load(open(out_path))}


def interpreter_matrix(ctx: Ctx, k: int, sites_per_occurrence) -> dict:
    """the package supports several Python versions: the same inputs through the package under every interpreter that is
    installed next to the one running the check (with the same attrs/cattrs), compared with this interpreter's outcomes -
    which the round-trip oracle above has judged."""
    import glob
    import shutil
    import sys
    import attrs
    from .. import gen, runner, tvgen
    from ..hyp import mini
    from ..subject import REPO
    here = os.path.realpath(sys.executable)
    exes = []
    for e in sorted(glob.glob("/root/.pyenv/versions/3.*/bin/python")):
        ver = os.path.basename(os.path.dirname(os.path.dirname(e)))
        minor = int(ver.split(".")[1])
        if 8 <= minor and os.path.realpath(e) != here and ver != "%d.%d.%d" % sys.version_info[:3]:
            exes.append(e)
    # ... and this interpreter with assertions and docstrings stripped (python -O / -OO, PYTHONOPTIMIZE)
    exes = [sys.executable + " -O", sys.executable + " -OO"] + exes
    sub = valuecheck.subject()
    sites = tvgen.Sites(sub.objects)
    cases: List[Any] = []

    def type_name(root: tuple):
        if root[0] == "struct":
            return root[1]
        if root[0] == "msg":
            kind_, msg_ = sub.objects.message(root[2])
            req, resp = sub.model.message_class_names(kind_, msg_)
            return resp if root[1] == "response" else req
        return None

    for locus, t in sub.model.union_occurrences():
        if locus.split("|")[0] == "alias:LSPAny":
            continue
        for root, route in sites.sites(locus, sites_per_occurrence):
            name = type_name(root)
            if name is None or not hasattr(sub.types, name):
                continue
            for i in range(len(t["items"])):
                mini(tvgen.value_strategy(sub.objects, root, tvgen.GenCfg(route=route + [f"{locus}|{i}"], max_nodes=80)), k,
                     (ctx.seed, "C01-matrix", locus, i, name), lambda x: cases.append([name, erase(x[0])]))
    # every enumeration at its use sites is part of the union-free surface: one value per structure as well
    for sname in sorted(sub.model.structs):
        if not sname.startswith("_") and hasattr(sub.types, sname):
            mini(tvgen.value_strategy(sub.objects, ("struct", sname), tvgen.GenCfg(max_nodes=60)), 2, (ctx.seed, "C01-matrix-s", sname),
                 lambda x: cases.append([sname, erase(x[0])]))
    # inputs that must be rejected (one field of a valid value replaced: out-of-range number, value outside a closed
    # enumeration, other literal, required property removed - C11's edits): the verdict must not depend on the interpreter
    from . import c11
    n_valid = len(cases)
    for sname in sorted(sub.model.structs):
        if sname.startswith("_") or not hasattr(sub.types, sname):
            continue
        key = ("struct", sname)
        got: List[Any] = []
        mini(tvgen.value_strategy(sub.objects, key, tvgen.GenCfg(mode="min", max_nodes=40)), 1, (ctx.seed, "C01-matrix-bad", sname), lambda x: got.append(x[0]))
        if not got:
            continue
        for p_ in sub.objects.props(key):
            for edit in c11.edits_for(sub, p_):
                if p_["name"] not in got[0].props and edit != "delete-required":
                    continue
                val = None if edit == "delete-required" else c11.replacement(sub, p_, edit, len(cases))
                cases.append([sname, c11.apply_edit(erase(got[0]), (), p_, edit, val)])
    d = gen.scratch("lspverif-matrix-")
    try:
        cases_path, script = os.path.join(d, "cases.json"), os.path.join(d, "runner.py")
        json.dump(cases, open(cases_path, "w"))
        open(script, "w").write(_MATRIX_RUNNER)
        site = os.path.dirname(os.path.dirname(attrs.__file__))
        pythonpath = os.pathsep.join([os.path.join(REPO, "packages", "python"), site])
        jobs = [(e, cases_path, os.path.join(d, f"out{i}.json"), script, pythonpath) for i, e in enumerate([sys.executable] + exes)]
        results = runner.pmap(_matrix_run, jobs)
        base = results[0]
        if "error" in base:
            raise runner.HarnessError(f"matrix runner fails under the check's own interpreter: {base['error']}")
        stats = {"cases": len(cases), "valid_inputs": n_valid, "inputs_to_reject": len(cases) - n_valid, "interpreters": [], "comparisons": 0, "unusable": []}
        for r in results[1:]:
            ver = os.path.basename(os.path.dirname(os.path.dirname(r["exe"].split(" ")[0]))) + "".join(" " + f for f in r["exe"].split(" ")[1:])
            if "error" in r:
                # cannot run at all: when the failure comes out of the package itself (a construct this interpreter does not
                # have) that is the package's matter; when the venv's libraries do not import under it, the interpreter is
                # reported as unusable and not judged
                err = str(r.get("trace") or r["error"])
                if "lsprotocol" in err and "site-packages" not in err.split("lsprotocol")[0][-200:]:
                    ctx.finding(("package-does-not-run", "lsprotocol", "python" + ".".join(ver.split(" ")[0].split(".")[:2])), f"Python {ver}: {str(r['error'])[:200]}",
                                {"interpreter": r["exe"]})
                stats["unusable"].append([ver, str(r["error"])[:160]])
                continue
            stats["interpreters"].append(ver)
            for (name, j), a, b in zip(cases, base["outcomes"], r["outcomes"]):
                stats["comparisons"] += 1
                if a != b:
                    ctx.finding(("interpreter-differs", name, "python" + ".".join(ver.split(" ")[0].split(".")[:2]) + ver[len(ver.split(" ")[0]):]),
                                f"{name} {json.dumps(j)[:160]}: Python {ver} gives {str(b)[:120]}, Python {sys.version_info.major}.{sys.version_info.minor} gives {str(a)[:120]}",
                                {"type": name, "json": j, "interpreter": r["exe"]})
        if not [v for v in stats["interpreters"] if not v.endswith(("-O", "-OO"))] and any(not e.startswith(sys.executable) for e in exes):
            raise runner.HarnessError(f"no other interpreter could run the package: {stats['unusable'][:3]}")
        return stats
    finally:
        shutil.rmtree(d, ignore_errors=True)


def self_recursive_routes(model) -> List[Tuple[str, List[str]]]:
    """(structure, route) for every property through which a structure contains itself (directly, or through arrays,
    maps, unions, aliases): one round of the route nests the structure one level deeper."""
    out = []

    def walk(t: dict, locus: str, target: str, path: List[str], seen: set) -> None:
        k = t["kind"]
        if k == "reference":
            n = t["name"]
            if n == target:
                out.append((target, list(path)))
            elif n in model.aliases and n not in seen:
                al = f"alias:{n}"
                walk(model.aliases[n]["type"], al, target, path + [al], seen | {n})
        elif k == "array":
            walk(t["element"], f"{locus}|[]", target, path + [f"{locus}|[]"], seen)
        elif k == "map":
            walk(t["value"], f"{locus}|{{}}", target, path + [f"{locus}|{{}}"], seen)
        elif k in ("or", "tuple"):
            for i, it in enumerate(t["items"]):
                walk(it, f"{locus}|{i}", target, path + [f"{locus}|{i}"], seen)

    for name in model.structs:
        for p in model.flat_props(name):
            locus = f"struct:{p['_declared_in']}.{p['name']}"
            walk(p["type"], locus, name, [locus], set())
    return out


def deep_chains(ctx: Ctx, depths: List[int]) -> dict:
    """"unbounded nesting": every self-recursive position nested d levels deep (far beyond what the free generator builds)."""
    from .. import tvgen
    from ..hyp import mini
    sub = valuecheck.subject()
    routes = self_recursive_routes(sub.model)
    n = 0
    deepest = 0
    too_large: List[Any] = []
    import hypothesis.errors
    for name, unit in routes:
        root = ("struct", name)
        for d in depths:
            def one(x):
                nonlocal n, deepest
                tv, _ = x
                n += 1
                deepest = max(deepest, d)
                for f in body(sub, root, tv):
                    ctx.finding((f[0], f[1], f"nested-{d}-deep"), f[3], {"root": list(root), "json": erase(tv), "tv": tvgen.to_json(tv), "extra": None})
            try:
                mini(tvgen.value_strategy(sub.objects, root, tvgen.GenCfg(route=unit * d, max_depth=3, max_nodes=150)), 2, (ctx.seed, "C01deep", name, unit[0], d), one)
            except hypothesis.errors.Unsatisfiable:
                too_large.append([name, d])   # the generator's own size limit, not the package's
    return {"self_recursive_positions": [f"{a}: {' > '.join(u)}" for a, u in routes][:12], "cases": n, "depths": depths, "beyond_generator_size": too_large}


def _json_steps(unit: List[str]) -> List[Any]:
    """the JSON path one round of a self-recursive route walks (union alternatives and aliases take no step)."""
    steps: List[Any] = []
    for locus in unit:
        last = locus.rsplit("|", 1)[-1] if "|" in locus else None
        if last is None:
            if locus.startswith("struct:"):
                steps.append(locus.split(".", 1)[1])
        elif last == "[]":
            steps.append(0)
        elif last == "{}":
            steps.append("{}")
        elif last.startswith("."):
            steps.append(last[1:])
    return steps


def _walk(j: Any, steps: List[Any]) -> Tuple[Any, Any, Any]:
    """(parent, key, node) after following the steps; raises KeyError/IndexError/TypeError when the value has no such path"""
    parent = key = None
    node = j
    for st_ in steps:
        if st_ == "{}":
            st_ = sorted(node)[0]
        parent, key, node = node, st_, node[st_]
    return parent, key, node


def very_deep(ctx: Ctx, levels: int) -> dict:
    """values nested far deeper than the generator builds (hundreds of levels - everything the json module still carries):
    a generated value of a self-recursive structure is grafted into its own innermost position again and again, and JSON
    payload positions get lists / objects nested that deep. Oracle, metamorphic: the round trip of the graft is the graft
    of the round trips (the generated value itself has passed the round-trip oracle above)."""
    import copy
    from .. import tvgen
    from ..hyp import mini
    sub = valuecheck.subject()
    stats = {"levels": levels, "cases": 0, "skipped_routes": 0, "payload_cases": 0, "sanity_cases": 0}

    def trip(name: str, j: Any, expect: Any, tag: str, case: dict) -> None:
        T = getattr(sub.types, name)
        try:
            obj = sub.conv.structure(j, T)
        except Exception as e:
            inner = e   # detailed validation wraps what happened inside a class in a group per class: the innermost cause
            for _ in range(10000):
                subs = getattr(inner, "exceptions", None)
                if not subs:
                    break
                inner = subs[0]
            ctx.finding((f"raises:{type(inner).__name__}", f"root:struct:{name}", f"{tag}:structure"), f"{name} nested {tag}: {type(inner).__name__} while structuring", case)
            return
        try:
            o = json.loads(json.dumps(sub.conv.unstructure(obj, T)))
        except Exception as e:
            ctx.finding((f"raises:{type(e).__name__}", f"root:struct:{name}", f"{tag}:unstructure"),
                        f"{name} nested {tag}: parsed, but {type(e).__name__} while writing it back", case)
            return
        if o != expect:
            ctx.finding(("very-deep-differs", f"root:struct:{name}", tag), f"{name} nested {tag}: the round trip of the graft is not the graft of the round trips", case)

    def graft(base: Any, steps: List[Any], times: int) -> Any:
        cur = copy.deepcopy(base)
        for _ in range(times - 1):
            outer = copy.deepcopy(base)
            parent, key, _ = _walk(outer, steps)
            parent[key] = cur
            cur = outer
        return cur

    d0 = 5
    for name, unit in self_recursive_routes(sub.model):
        if not hasattr(sub.types, name):
            continue
        got: List[Any] = []
        try:
            mini(tvgen.value_strategy(sub.objects, ("struct", name), tvgen.GenCfg(route=unit * d0, max_depth=3, max_nodes=60)), 2, (ctx.seed, "C01verydeep", name, unit[0]),
                 lambda x: got.append(x[0]))
        except Exception:
            got = []
        if not got:
            stats["skipped_routes"] += 1
            continue
        tv = got[-1]
        j = erase(tv)
        steps = _json_steps(unit) * d0
        try:
            _walk(j, steps)
            T = getattr(sub.types, name)
            out1 = json.loads(json.dumps(sub.conv.unstructure(sub.conv.structure(j, T), T)))
            _walk(out1, steps)
        except Exception:
            stats["skipped_routes"] += 1   # the generated value does not follow the route literally (or is C01's matter itself)
            continue
        per_round = max(1, len(steps))
        for lv, tag in ((60, "sanity-60-levels"), (levels, f"very-deep-{levels}-levels")):
            times = max(2, lv // per_round)
            trip(name, graft(j, steps, times), graft(out1, steps, times), tag, {"root": ["struct", name], "route": unit, "grafts": times, "base_json": j})
            stats["cases" if lv == levels else "sanity_cases"] += 1
    # JSON payload positions (LSPAny / LSPArray / LSPObject): the payload is the deep part
    def nest(kind: str, n: int) -> Any:
        cur: Any = 1
        for _ in range(n):
            cur = [cur] if kind == "list" else {"k": cur}
        return cur
    payload_sites = [("ProgressParams", lambda v: {"token": 1, "value": v}), ("DidChangeConfigurationParams", lambda v: {"settings": v}),
                     ("Command", lambda v: {"title": "t", "command": "c", "arguments": [v]})]
    for name, make in payload_sites:
        if not hasattr(sub.types, name):
            continue
        for kind in ("list", "dict"):
            for lv, tag in ((60, "sanity-60-levels"), (levels, f"very-deep-{levels}-levels")):
                j = make(nest(kind, lv))
                trip(name, j, j, tag + ":" + kind, {"root": ["struct", name], "payload": kind, "levels": lv})
                stats["payload_cases"] += 1
    return stats


def run(ctx: Ctx) -> None:
    ctx.assumptions = [
        "the reference interpreter of the metamodel (lspverif/refmodel.py) reads lsp.json as the LSP specification intends",
        "an optional property that is not null-admitting and carries JSON null is equivalent to an absent one (docstring of is_special_property)",
    ]
    valuecheck.run_value_property(ctx, "C01", n_quick=40, n_thorough=1000, rule=RULE)
    pin = pinned_alternatives(ctx, 3 if ctx.quick else None, 12 if ctx.quick else 60)
    ctx.coverage["pinned_union_alternatives"] = pin
    ctx.coverage["evaluations"] += pin["evaluations"]
    mx = interpreter_matrix(ctx, 1 if ctx.quick else 6, 1 if ctx.quick else 3)
    ctx.coverage["interpreter_matrix"] = mx
    ctx.coverage["evaluations"] += mx.get("comparisons", 0)
    deep = deep_chains(ctx, [25, 100] if ctx.quick else [25, 100, 180])
    ctx.coverage["deep_chains"] = deep
    ctx.coverage["very_deep"] = very_deep(ctx, 600)
    ctx.coverage["evaluations"] += deep["cases"]
    if not ctx.quick:
        cg = coverage_guided(ctx, procs=16, runs=30000)
        ctx.coverage["coverage_guided_campaign"] = cg
        ctx.coverage["evaluations"] += cg.get("target_executions", 0)


def replay(ctx: Ctx, path: str) -> int:
    with open(path) as f:
        rp = json.load(f)
    case = rp.get("case") or {}
    if "tv" not in case and ("payload" in case or "grafts" in case):
        # a value of the very-deep leg: rebuilt from its recipe (the value itself is too large to store) and judged again
        import copy
        sub = valuecheck.subject()
        name = case["root"][1]
        T = getattr(sub.types, name)
        if "payload" in case:
            cur: Any = 1
            for _ in range(case["levels"]):
                cur = [cur] if case["payload"] == "list" else {"k": cur}
            j = {"ProgressParams": {"token": 1, "value": cur}, "DidChangeConfigurationParams": {"settings": cur},
                 "Command": {"title": "t", "command": "c", "arguments": [cur]}}[name]
            expect = j
        else:
            steps = _json_steps(case["route"]) * 5
            base_j = case["base_json"]
            out1 = json.loads(json.dumps(sub.conv.unstructure(sub.conv.structure(base_j, T), T)))

            def graft(b):
                cur = copy.deepcopy(b)
                for _ in range(case["grafts"] - 1):
                    outer = copy.deepcopy(b)
                    parent, key, _n = _walk(outer, steps)
                    parent[key] = cur
                    cur = outer
                return cur
            j, expect = graft(base_j), graft(out1)
        try:
            o = json.loads(json.dumps(sub.conv.unstructure(sub.conv.structure(j, T), T)))
            ok = o == expect
            what = "round trip differs" if not ok else ""
        except Exception as e:
            ok, what = False, f"{type(e).__name__}"
        if ok:
            print("[C01] replay: the value makes the round trip now")
            return 0
        sig = tuple(rp.get("signature") or ())
        if ctx.known.match(sig):
            print(f"KNOWN-FINDING: property=C01 {ctx.known.match(sig)['what'][:200]}")
            print("[C01] replay: recorded signature reproduces (a listed finding)")
            return 0
        print(f"VIOLATION property=C01 replay={path}\n  {name}: {what}")
        return 1
    return valuecheck.replay_value_case(ctx, "C01", path)
