"""C03 — structured results are well-typed instances of the declared classes."""
from __future__ import annotations

from typing import List, Tuple

from .. import valuecheck
from ..oracle import WellTyped
from ..runner import Ctx
from ..tvgen import TV, erase

RULE = (
    "typed values as in C01; only cases where structuring succeeds are judged; oracle: a walk of the resulting object "
    "graph directed by the metamodel type (not the Python annotation): same-named generated class at structure "
    "positions (never dict), sequences of converted elements, tuples, dict maps, python base types, closed-enum member "
    "or equal primitive, payload positions free, and at a union an alternative for which the input was valid. "
    "non-trivial/distinct as in C01"
)

_WT = {}


def body(sub, root: tuple, tv: TV, extra=None) -> List[Tuple[str, str, str, str]]:
    wt = _WT.get(id(sub))
    if wt is None:
        wt = _WT[id(sub)] = WellTyped(sub)
    j = erase(tv)
    T = sub.root_type(root)
    rname = valuecheck.root_name(root)
    try:
        obj = sub.conv.structure(j, T)
    except Exception:
        return []  # C01/C14 territory
    if root[0] == "alias":
        return wt.check(obj, {"kind": "reference", "name": root[1]}, j, f"root:{rname}")
    if root[0] == "type":
        return wt.check(obj, sub.objects.type_at[root[1]], j, root[1])
    return wt.check_obj(obj, root, j, f"root:{rname}", "-", exact_class=False)


valuecheck.register("C03", body)


def run(ctx: Ctx) -> None:
    ctx.assumptions = ["reference interpreter of lsp.json; non-strict validity (unknown keys ignored) decides 'an alternative for which the input was valid'"]
    valuecheck.run_value_property(ctx, "C03", n_quick=120, n_thorough=1000, rule=RULE)


def replay(ctx: Ctx, path: str) -> int:
    return valuecheck.replay_value_case(ctx, "C03", path)
