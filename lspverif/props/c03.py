"""C03 — structured results are well-typed instances of the declared classes."""
from __future__ import annotations

from typing import List, Tuple

from .. import valuecheck
from ..oracle import WellTyped
from ..runner import Ctx
from ..tvgen import TV, erase

RULE = (
    "typed values as in C01; only cases where structuring succeeds are judged; oracle: a walk of the resulting object "
    "graph directed by the metamodel type (not the Python annotation): same-named generated class at structure "
    "positions (never dict), sequences of converted elements, tuples, dict maps, python base types, closed-enum member "
    "or equal primitive, payload positions free, and at a union an alternative for which the input was valid. "
    "non-trivial/distinct as in C01"
)

_WT = {}


def body(sub, root: tuple, tv: TV, extra=None) -> List[Tuple[str, str, str, str]]:
    wt = _WT.get(id(sub))
    if wt is None:
        wt = _WT[id(sub)] = WellTyped(sub)
    j = erase(tv)
    T = sub.root_type(root)
    rname = valuecheck.root_name(root)
    try:
        obj = sub.conv.structure(j, T)
    except Exception:
        valuecheck.note("not-judged:structuring-fails(C01's matter)" + (":alias-root" if root[0] == "alias" else ""))
        return []  # C01/C14 territory
    if root[0] == "alias":
        return wt.check(obj, {"kind": "reference", "name": root[1]}, j, f"root:{rname}")
    if root[0] == "type":
        return wt.check(obj, sub.objects.type_at[root[1]], j, root[1])
    return wt.check_obj(obj, root, j, f"root:{rname}", "-", exact_class=False)


valuecheck.register("C03", body)


def _large_work(args) -> dict:
    """sizes: every array position of the metamodel holding N elements (k distinct generated ones, repeated): code that
    batches, samples or switches to another path for long sequences."""
    from .. import tvgen
    from ..hyp import mini
    from . import c01
    items, seed, sizes = args
    sub = valuecheck.subject()
    lctx = Ctx("C03", "quick", seed)
    res = {"evaluations": 0, "elements": 0, "loci": set()}
    for (locus, root, route) in items:
        el = f"{locus}|[]"
        for n_el in sizes:
            def target(gen, t, loc, depth):
                tt = gen.m.resolve_alias(t)
                old_t, gen.cfg.target = gen.cfg.target, None
                try:
                    distinct = []
                    for sh in ("min", "max", None, None, "min", None, "max", None):
                        gen.shape = sh
                        gen.nodes = min(gen.nodes, 40)   # every distinct element gets a node budget of its own
                        distinct.append(gen.type(tt["element"], el, depth + 1, None))
                    gen.shape = None
                    # ... and the sparse shapes: the required properties plus exactly one optional one, twice each (unions)
                    et = gen.m.resolve_alias(tt["element"])
                    if et["kind"] == "reference" and et["name"] in gen.m.structs:
                        for p_ in [p_ for p_ in gen.m.flat_props(et["name"]) if p_.get("optional")][:30]:
                            for rep in range(3):
                                gen.solo, gen.shape = p_["name"], ("min" if rep == 0 else None)   # None: alternatives of a union vary
                                gen.nodes = min(gen.nodes, 40)
                                try:
                                    distinct.append(gen.type(tt["element"], el, depth + 1, None))
                                finally:
                                    gen.solo, gen.shape = None, None
                    return tvgen.L([distinct[i % len(distinct)] for i in range(n_el)])
                finally:
                    gen.shape = None
                    gen.cfg.target = old_t

            def one(x):
                tv, _ = x
                res["evaluations"] += 1
                res["elements"] += n_el
                res["loci"].add(locus)
                case = None
                for f in body(sub, root, tv) + [g for g in c01.body(sub, root, tv)]:
                    if case is None:
                        case = {"root": list(root), "array_locus": locus, "elements": n_el, "tv": tvgen.to_json(tv), "extra": None}
                    lctx.finding((f[0], f[1], f"array-of-{n_el}"), f[3], case)

            try:
                # two examples: Hypothesis's first one is the simplest (first alternative of every union)
                mini(tvgen.value_strategy(sub.objects, root, tvgen.GenCfg(route=route, target=target, max_nodes=120)), 2,
                     (seed, "C03-large", locus, valuecheck.root_name(root), n_el), one)
            except RecursionError:
                continue
    res["violations"] = list(lctx.violations.values())
    res["known_hits"] = lctx.known_hits
    res["known_examples"] = lctx.known_examples
    res["loci"] = sorted(res["loci"])
    return res


def large_arrays(ctx: Ctx, sizes: List[int]) -> dict:
    from .. import runner, tvgen
    sub = valuecheck.subject()
    sites = tvgen.Sites(sub.objects)
    items = []
    for locus, t in sorted(sub.objects.type_at.items()):
        if t["kind"] != "array" or locus.split("|")[0] in ("alias:LSPAny", "alias:LSPArray", "alias:LSPObject"):
            continue
        ss = [s for s in sites.sites(locus, 1) if s[0][0] != "alias"]
        if ss:
            items.append((locus, ss[0][0], ss[0][1]))
    results = runner.pmap(_large_work, [(sh, ctx.seed, sizes) for sh in runner.chunks(items, runner.NPROC * 3)])
    ev = el = 0
    loci = set()
    for r in results:
        ev += r["evaluations"]
        el += r["elements"]
        loci |= set(r["loci"])
        ctx.merge_worker(r)
    return {"array_positions": len(items), "array_positions_reached": len(loci), "sizes": sizes, "cases": ev, "elements_structured": el}


def run(ctx: Ctx) -> None:
    ctx.assumptions = ["reference interpreter of lsp.json; non-strict validity (unknown keys ignored) decides 'an alternative for which the input was valid'"]
    valuecheck.run_value_property(ctx, "C03", n_quick=120, n_thorough=1000, rule=RULE)
    big = large_arrays(ctx, [1000] if ctx.quick else [1000, 4096, 20000])
    ctx.coverage["large_arrays"] = big
    ctx.coverage["evaluations"] += big["cases"]


def replay(ctx: Ctx, path: str) -> int:
    import json
    from .. import tvgen
    from . import c01
    with open(path) as f:
        rp = json.load(f)
    if "array_locus" in rp.get("case", {}):   # a large-array case: judged by this module's and C01's oracle
        sub = valuecheck.subject()
        tv, root = tvgen.from_json(rp["case"]["tv"]), tuple(rp["case"]["root"])
        hit = [g for g in body(sub, root, tv) + c01.body(sub, root, tv) if [g[0], g[1]] == rp["signature"][:2]]
        if hit:
            print(f"VIOLATION property=C03 replay={path}\n  signature={rp['signature']} detail={hit[0][3]}")
            return 1
        print(f"[C03] replay {path}: signature no longer reproduces")
        return 0
    return valuecheck.replay_value_case(ctx, "C03", path)
