"""C08 — .NET classes declare the metamodel's wire schema and message metadata."""
from __future__ import annotations

import os
import shutil
from typing import Dict

from .. import gen
from ..cscheck import CsOracle
from ..refmodel import load_doc
from ..runner import Ctx, HarnessError
from ..subject import repo_path

RULE = (
    "exhaustive over every .cs file the dotnet plugin writes from the working tree for generator/lsp.json (sub-process, "
    "scratch directory): per structure one [DataMember(Name=n)] per flattened property and no other, mapped C# type "
    "tree, nullable <=> optional or null-admitting, NullValueHandling.Ignore <=> optional and not null-admitting, "
    "assignment in the [JsonConstructor]; enumerations' values; per method the LSPRequest/LSPResponse pairing, exactly "
    "one LSPMethods constant, and [Direction] of every request and notification class against the metamodel. "
    "evaluations = facet comparisons; non-trivial/distinct = declared items covered"
)


def read_tree(d: str) -> Dict[str, str]:
    out = {}
    for name in sorted(os.listdir(d)):
        if name.endswith(".cs"):
            out[name] = open(os.path.join(d, name), encoding="utf-8").read()
    return out


def custom_names() -> set:
    d = repo_path("generator", "plugins", "dotnet", "custom")
    return {n for n in os.listdir(d) if n.endswith(".cs")}


def analyse(ctx: Ctx, doc: dict, files: Dict[str, str], which: str = "generated") -> int:
    o = CsOracle(doc, files, custom_names())
    for f in o.run():
        ctx.finding((f[0], f[1], which), f[3], {"item": f[1], "detail": f[3]})
    ctx.coverage["files"] = len(files)
    ctx.coverage["classes_parsed"] = len(o.classes)
    return o.evaluations


def run(ctx: Ctx) -> None:
    doc = load_doc(repo_path("generator", "lsp.json"))
    d = gen.scratch()
    evaluations = 0
    try:
        r = gen.run_generator("dotnet", d, hashseed=ctx.seed % 1000)
        if r.returncode != 0:
            ctx.finding(("plugin-failed", "dotnet", "committed-model"), (r.stderr or r.stdout)[-400:], {})
        else:
            files = read_tree(os.path.join(d, "lsprotocol"))
            if len(files) < 100:
                raise HarnessError(f"only {len(files)} .cs files found")
            evaluations = analyse(ctx, doc, files)
    finally:
        shutil.rmtree(d, ignore_errors=True)
    n_items = len(doc["structures"]) + len(doc["enumerations"]) + len(doc["requests"]) * 2 + len(doc["notifications"])
    ctx.coverage.update({
        "evaluations": max(evaluations, 1), "distinct_nontrivial": n_items, "rule": RULE, "exhaustive": True,
        "samples": [{"class": "Position", "members": ["line: long", "character: long"]},
                    {"method": "textDocument/hover", "request": "HoverRequest", "response": "HoverResponse", "direction": "ClientToServer"}],
    })
    ctx.assumptions = [
        "declarations only (no .NET SDK offline)",
        "ImmutableArray/ImmutableDictionary are C# value types: absence is judged on the constructor default; the ?/Ignore markers only in the direction 'never on a required property'",
        "names of classes generated for anonymous literals and map values are the plugin's choice",
    ]


def replay(ctx: Ctx, path: str) -> int:
    run(ctx)
    return ctx.finish()
