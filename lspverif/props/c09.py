"""C09 — method catalogue and type registry agree with the metamodel."""
from __future__ import annotations

import enum
import typing
from typing import Any, List, Optional

import attrs

from .. import valuecheck
from ..refmodel import snake, upper_snake_method
from ..runner import Ctx
from .c04 import Mapper

RULE = (
    "exhaustive: 95 methods x {message class, default method, response class + result annotation, params type, "
    "registration-options type, direction, UPPER_SNAKE constant}, both directions of the key sets of METHOD_TO_TYPES "
    "and the direction table, every name of ALL_TYPES_MAP and every class/enum/alias the module defines, and (after the "
    "first get_converter()) every attrs field type of every class scanned for unresolved str/ForwardRef. "
    "evaluations = facet comparisons; non-trivial = (method, facet) whose expected value is not None; distinct = the pair"
)


def contains_forward_ref(tp: Any, depth: int = 0) -> bool:
    if isinstance(tp, (str, typing.ForwardRef)):
        return True
    if depth > 20 or typing.get_origin(tp) is typing.Literal:
        return False
    return any(contains_forward_ref(a, depth + 1) for a in typing.get_args(tp))


_SCAN = r"""
import sys, typing, json
import attrs
from lsprotocol import converters, types as t
before = sorted(k for k in t.ALL_TYPES_MAP)
converters.get_converter()
def has_fwd(tp, d=0):
    if isinstance(tp, (str, typing.ForwardRef)):
        return True
    if d > 20 or getattr(tp, "__origin__", None) is getattr(typing, "Literal", object()):
        return False
    return any(has_fwd(a, d + 1) for a in getattr(tp, "__args__", ()) or ())
after = sorted(k for k in t.ALL_TYPES_MAP)
added = [k for k in after if k not in before]
bad, n = [], 0
for name, obj in sorted(t.ALL_TYPES_MAP.items(), key=lambda kv: kv[0]):
    if isinstance(obj, type) and attrs.has(obj):
        for a in attrs.fields(obj):
            n += 1
            if has_fwd(a.type):
                bad.append([name, a.name, repr(a.type)[:200]])
print(json.dumps({"version": sys.version.split()[0], "fields": n, "unresolved": bad, "added": added, "removed": [k for k in before if k not in after]}))
"""


def other_interpreters(ctx: Ctx) -> dict:
    """"all forward references resolve when a converter is first created" - on every Python version the package supports:
    the same scan in a fresh process of every interpreter installed next to this one (with this one's attrs/cattrs)."""
    import glob
    import json
    import os
    import subprocess
    import sys
    from ..subject import REPO
    site = os.path.dirname(os.path.dirname(attrs.__file__))
    env = {"PYTHONPATH": os.pathsep.join([os.path.join(REPO, "packages", "python"), site]), "PYTHONHASHSEED": "0",
           "PYTHONDONTWRITEBYTECODE": "1", "PATH": "/usr/bin:/bin"}
    stats = {"interpreters": [], "unusable": [], "fields_scanned": 0}
    for exe in sorted(glob.glob("/root/.pyenv/versions/3.*/bin/python")):
        ver = os.path.basename(os.path.dirname(os.path.dirname(exe)))
        if int(ver.split(".")[1]) < 8 or ver == "%d.%d.%d" % sys.version_info[:3]:
            continue
        r = subprocess.run([exe, "-B", "-c", _SCAN], capture_output=True, text=True, timeout=600, env=env)
        if r.returncode != 0:
            # (a failure that comes out of the package itself is the package's matter; libraries of the venv that do not
            # import under this interpreter make it unusable, which is reported and not judged)
            if "lsprotocol" in r.stderr and "site-packages" not in r.stderr.split("lsprotocol")[0][-200:]:
                ctx.finding(("package-does-not-run", "lsprotocol", "python" + ".".join(ver.split(".")[:2])), f"Python {ver}: {(r.stderr.strip().splitlines() or ['?'])[-1][:200]}",
                            {"interpreter": exe})
            stats["unusable"].append([ver, (r.stderr.strip().splitlines() or ["?"])[-1][:160]])
            continue
        res = json.loads(r.stdout.strip().splitlines()[-1])
        stats["interpreters"].append(ver)
        stats["fields_scanned"] += res["fields"]
        mm = "python" + ".".join(ver.split(".")[:2])
        for k_ in res.get("added", []) + res.get("removed", []):
            ctx.finding(("registry-changed-by-first-converter", str(k_), mm), f"Python {ver}: the first get_converter() adds / removes the registry key {k_!r}", {"key": str(k_), "interpreter": exe})
        for cname, aname, shown in res["unresolved"]:
            ctx.finding(("unresolved-forward-ref", f"{cname}.{aname}", mm), f"Python {ver}: after the first get_converter() the field type is still {shown}",
                        {"locus": f"{cname}.{aname}", "interpreter": exe})
    if not stats["interpreters"] and stats["unusable"]:
        from ..runner import HarnessError
        raise HarnessError(f"no other interpreter could run the package: {stats['unusable'][:3]}")
    return stats


def run(ctx: Ctx, sub=None) -> None:
    committed = sub is None
    sub = sub or valuecheck.subject()
    m, t = sub.model, sub.types
    mp = Mapper(sub)
    evaluations = 0
    nontrivial = set()
    samples: List[Any] = []

    def fail(sym: str, locus: str, detail: str) -> None:
        ctx.finding((sym, locus, "-"), detail, {"locus": locus, "detail": detail})

    methods = {}
    for kind, msg in m.messages():
        if msg["method"] in methods:
            fail("duplicate-method", msg["method"], "declared twice in the metamodel")
        methods[msg["method"]] = (kind, msg)
    table = t.METHOD_TO_TYPES
    evaluations += 2
    for k in table:
        if k not in methods:
            fail("extra-method", str(k), "METHOD_TO_TYPES has a method the metamodel does not declare")
    for k in methods:
        if k not in table:
            fail("missing-method", k, "METHOD_TO_TYPES lacks the method")
    dirs = getattr(t, "_MESSAGE_DIRECTION", {})
    evaluations += 2
    for k in dirs:
        if k not in methods:
            fail("extra-method", str(k), "direction table has a method the metamodel does not declare")

    def mapped(ty: Optional[dict], locus: str) -> Any:
        if not ty:
            return None
        return mp.map(ty, locus)

    for method, (kind, msg) in methods.items():
        if method not in table:
            continue
        entry = table[method]
        evaluations += 1
        if not (isinstance(entry, tuple) and len(entry) == 4):
            fail("entry-shape", method, f"{entry!r}")
            continue
        cls, resp, params, regopts = entry
        req_name, resp_name = m.message_class_names(kind, msg)
        # message class
        evaluations += 1
        nontrivial.add((method, "class"))
        if not (isinstance(cls, type) and attrs.has(cls)):
            fail("message-class", method, f"{cls!r} is not an attrs class")
        else:
            if cls.__name__ != req_name or getattr(t, req_name, None) is not cls:
                fail("message-class", method, f"class {cls.__name__}, expected {req_name}")
            f = {a.name: a for a in attrs.fields(cls)}
            evaluations += 1
            if "method" not in f or f["method"].default != method:
                fail("default-method", method, f"default method {f.get('method') and f['method'].default!r}")
            evaluations += 1
            if "jsonrpc" not in f or "params" not in f or (kind == "request") != ("id" in f):
                fail("message-class", method, f"envelope fields {sorted(f)}")
            # params annotation of the message class
            evaluations += 1
            try:
                if msg.get("params"):
                    exp = mapped(msg["params"], f"{kind}:{method}:params")
                    if f["params"].type != exp:
                        fail("params-annotation", method, f"{f['params'].type!r}, expected {exp!r}")
                    if f["params"].default is not attrs.NOTHING:
                        fail("params-annotation", method, "declared params must be required")
                elif "params" in f and f["params"].default is not None:
                    fail("params-annotation", method, "undeclared params must default to None")
            except Exception as e:
                fail("params-annotation", method, f"{e!r}")
        # response
        evaluations += 1
        if kind == "request":
            nontrivial.add((method, "response"))
            if not (isinstance(resp, type) and attrs.has(resp)) or resp.__name__ != resp_name or getattr(t, resp_name, None) is not resp:
                fail("response-class", method, f"{resp!r}, expected {resp_name}")
            else:
                f = {a.name: a for a in attrs.fields(resp)}
                evaluations += 1
                if not {"id", "result", "jsonrpc"} <= set(f):
                    fail("response-class", method, f"fields {sorted(f)}")
                else:
                    evaluations += 1
                    rt = msg.get("result")
                    try:
                        if rt is None or m.is_null(rt):
                            exp = type(None)
                        else:
                            exp = mp.map(rt, f"request:{method}:result")
                        got = f["result"].type
                        if got != exp and got != Optional[exp]:
                            fail("result-annotation", method, f"{got!r}, expected {exp!r}")
                    except Exception as e:
                        fail("result-annotation", method, f"{e!r}")
        elif resp is not None:
            fail("response-class", method, f"notification has response {resp!r}")
        # params / registration options entries
        for facet, got, ty in (("params", params, msg.get("params")), ("registrationOptions", regopts, msg.get("registrationOptions"))):
            evaluations += 1
            if ty:
                nontrivial.add((method, facet))
            try:
                if not ty:
                    exp = None
                elif ty["kind"] == "and":
                    exp = got  # structure checked below
                    want = {p["name"] for p in m.and_props(ty)}
                    have = {a.name for a in attrs.fields(got)} if (isinstance(got, type) and attrs.has(got)) else None
                    if have != {snake(n) for n in want}:
                        fail(f"{facet}-type", method, f"'and' class has attributes {have}, expected {sorted(want)}")
                else:
                    exp = mapped(ty, f"{kind}:{method}:{facet}")
                if exp != got:
                    fail(f"{facet}-type", method, f"{got!r}, expected {exp!r}")
            except Exception as e:
                fail(f"{facet}-type", method, f"{e!r}")
        # direction
        evaluations += 1
        nontrivial.add((method, "direction"))
        try:
            d = t.message_direction(method)
            if d != msg["messageDirection"]:
                fail("direction", method, f"{d!r}, expected {msg['messageDirection']!r}")
        except Exception as e:
            fail("direction", method, f"message_direction raised {e!r}")
        # constant
        evaluations += 1
        nontrivial.add((method, "constant"))
        const = upper_snake_method(method)
        if getattr(t, const, None) != method:
            fail("constant", method, f"{const} = {getattr(t, const, None)!r}")
        if len(samples) < 4:
            samples.append({"method": method, "class": req_name, "response": resp_name, "constant": const,
                            "direction": msg["messageDirection"]})
    # ... "and for nothing else": an exported UPPER_SNAKE string constant that looks like a method ("a/b", "$/x", or equal to a
    # method) has to be the constant of a declared method
    import re as _re
    expected_consts = {upper_snake_method(mm) for mm in methods}
    for cname in dir(t):
        val = getattr(t, cname, None)
        if isinstance(val, str) and _re.fullmatch(r"[A-Z][A-Z0-9_]*", cname) and not cname.startswith("__"):
            evaluations += 1
            if (("/" in val) or val in methods) and (val not in methods or cname not in expected_consts):
                fail("extra-constant", cname, f"{cname} = {val!r} corresponds to no declared method")
    # unknown method raises
    evaluations += 1
    for bogus in ("", "no/such/method", "Initialize", "textDocument/hover "):
        try:
            r = t.message_direction(bogus)
            fail("direction", f"bogus:{bogus}", f"unknown method returned {r!r}")
        except Exception:
            pass

    # --- registry ---------------------------------------------------------------------------------
    reg = t.ALL_TYPES_MAP
    defined = {}
    for name, obj in vars(t).items():
        if isinstance(obj, type) and getattr(obj, "__module__", None) == t.__name__:
            defined[name] = obj
    for name in list(m.aliases):
        if hasattr(t, name):
            defined[name] = getattr(t, name)
    for name, obj in defined.items():
        evaluations += 1
        if name not in reg:
            fail("registry-missing", name, "defined by the package but absent from ALL_TYPES_MAP")
        elif reg[name] is not obj and reg[name] != obj:
            fail("registry-wrong", name, f"ALL_TYPES_MAP[{name!r}] is {reg[name]!r}")
        nontrivial.add(("registry", name))
    for name, obj in reg.items():
        evaluations += 1
        if getattr(t, name, None) is not obj and getattr(t, name, None) != obj:
            fail("registry-foreign", name, "entry is not the module attribute of that name")
        elif name not in defined and not (isinstance(obj, type) or typing.get_origin(obj) is not None or obj in (object, typing.Any)):
            # (the subject has created a converter by now: the registry is looked at after first use)
            fail("registry-foreign", name, f"entry is not a protocol type: {type(obj).__name__}")
    # forward references resolved after first converter creation (the subject created one)
    unresolved = 0
    for name, obj in defined.items():
        if isinstance(obj, type) and attrs.has(obj):
            for a in attrs.fields(obj):
                evaluations += 1
                if contains_forward_ref(a.type):
                    unresolved += 1
                    fail("unresolved-forward-ref", f"{name}.{a.name}", f"{a.type!r}")
    samples.append({"registry_names": len(reg), "defined": len(defined)})
    if committed:
        st_ = other_interpreters(ctx)
        evaluations += st_["fields_scanned"]
        samples.append({"other_interpreters": st_})
    ctx.coverage.update({
        "evaluations": evaluations, "distinct_nontrivial": len(nontrivial), "rule": RULE, "samples": samples,
        "exhaustive": True, "methods": len(methods), "registry_names": len(reg), "definitions": len(defined),
    })
    ctx.assumptions = ["naming rule of message classes (typeName or derived from the method) re-implemented in refmodel.message_class_names"]


def replay(ctx: Ctx, path: str) -> int:
    run(ctx)
    return ctx.finish()
