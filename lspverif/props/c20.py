"""C20 — Position order is lexicographic and total; Range/Location equality is structural."""
from __future__ import annotations

import itertools
import json
import operator
from typing import Any, List

import hypothesis
from hypothesis import HealthCheck, given, settings, strategies as st

from .. import valuecheck
from ..hyp import mini
from ..refmodel import UINT_MAX
from ..runner import Ctx, derive_seed

GRID = [0, 1, 2, UINT_MAX - 1, UINT_MAX]
OPS = [("<", operator.lt), ("<=", operator.le), (">", operator.gt), (">=", operator.ge), ("==", operator.eq), ("!=", operator.ne)]
RULE = (
    "all 625 pairs of positions over the coordinate grid {0,1,2,2^31-2,2^31-1}^2 x 6 operators (exhaustive), random "
    "uinteger pairs (Hypothesis), ranges/locations built from generated positions and URIs, and a pool of foreign "
    "objects; oracle: tuple comparison of (line, character), trichotomy, component-wise equality, ==False/!=True/"
    "TypeError against foreign objects (incl. look-alikes with the same attribute names), exact repr format; plus a "
    "RuleBasedStateMachine over mutable positions/ranges (create, mutate a field in place, compare): comparisons must "
    "follow the current field values; operands (and nested components) that are instances of classes derived from "
    "Position/Range/Location compare like the stock ones. non-trivial = pair with a differing or boundary coordinate; "
    "distinct = the coordinate tuple"
)


def run(ctx: Ctx) -> None:
    sub = valuecheck.subject()
    t = sub.types
    Position, Range, Location = t.Position, t.Range, t.Location
    evaluations = 0
    distinct = set()
    samples: List[Any] = []

    def fail(sym: str, locus: str, detail: str, case: Any) -> None:
        ctx.finding((sym, locus, "-"), detail, case)

    def check_pair(a, b):
        nonlocal evaluations
        pa, pb = Position(line=a[0], character=a[1]), Position(line=b[0], character=b[1])
        for name, op in OPS:
            evaluations += 1
            try:
                got = op(pa, pb)
            except Exception as e:
                fail(f"raises:{type(e).__name__}", f"Position{name}", f"{a} {name} {b}", {"a": a, "b": b, "op": name})
                continue
            if got is not op(a, b):
                fail("wrong-order", f"Position{name}", f"{a} {name} {b} gave {got!r}", {"a": a, "b": b, "op": name})
        try:
            n = [pa < pb, pa == pb, pa > pb].count(True)
            if n != 1:
                fail("not-total", "Position", f"{a} vs {b}: {n} of <,==,> hold", {"a": a, "b": b})
        except Exception:
            pass
        if a != b or a[0] in (0, UINT_MAX) or a[1] in (0, UINT_MAX):
            distinct.add((a, b))

    # 1. exhaustive grid
    pts = list(itertools.product(GRID, GRID))
    for a in pts:
        for b in pts:
            check_pair(a, b)
    grid_pairs = len(pts) ** 2
    samples.append({"positions": [[0, UINT_MAX], [1, 0]], "ops": [n for n, _ in OPS]})

    # 2. random pairs / ranges / locations
    coord = st.one_of(st.sampled_from(GRID), st.integers(0, UINT_MAX), st.integers(0, 5))
    pos = st.tuples(coord, coord)
    # uris that a normalising comparison would identify although the strings differ (percent-encoding, case, slashes,
    # Unicode composition, surrounding space): equality of locations is equality of the component strings
    NEAR_URIS = ["file:///a", "file:///b", "", "file:///c:/a.py", "file:///c%3A/a.py", "file:///c%3a/a.py", "file:///C:/a.py", "FILE:///a", "file:///a/",
                 "file://localhost/a", "a b", "a%20b", "a+b", "%41", "A", "caf\u00e9", "cafe\u0301", "caf%C3%A9", " file:///a", "file:///a ", "file:///a#", "file:///a?",
                 "file:///a/./b", "file:///a/b", "file:///a/../a/b", "%FF", "%FE",
                 "jdt://contents/" + "p" * 241, "jdt://contents/" + "p" * 242, "data:text/plain;base64," + "QUJD" * 2500, "u" * 4096]   # sizes
    uri = st.one_of(st.sampled_from(NEAR_URIS), st.sampled_from(NEAR_URIS), st.text(max_size=5))
    n = 2000 if ctx.quick else 50000
    common = dict(database=None, deadline=None, report_multiple_bugs=False, suppress_health_check=list(HealthCheck),
                  phases=[hypothesis.Phase.generate], verbosity=hypothesis.Verbosity.quiet)

    @hypothesis.seed(derive_seed(ctx.seed, "C20", "pairs"))
    @settings(max_examples=n, **common)
    @given(pos, pos)
    def t_pairs(a, b):
        check_pair(a, b)

    t_pairs()

    def mk_range(r):
        return Range(start=Position(line=r[0][0], character=r[0][1]), end=Position(line=r[1][0], character=r[1][1]))

    @hypothesis.seed(derive_seed(ctx.seed, "C20", "ranges"))
    @settings(max_examples=n, **common)
    @given(st.tuples(pos, pos), st.tuples(pos, pos), uri, uri, st.booleans(), st.booleans())
    def t_ranges(r1, r2, u1, u2, same_r, same_u):
        nonlocal evaluations
        if same_r:
            r2 = r1
        if same_u:
            u2 = u1
        evaluations += 1
        R1, R2 = mk_range(r1), mk_range(r2)
        case = {"r1": r1, "r2": r2, "u1": u1, "u2": u2}
        try:
            if (R1 == R2) is not (r1 == r2) or (R1 != R2) is not (r1 != r2):
                fail("wrong-equality", "Range", f"{r1} vs {r2}: == {R1 == R2}, != {R1 != R2}", case)
            L1, L2 = Location(uri=u1, range=R1), Location(uri=u2, range=R2)
            exp = (u1 == u2 and r1 == r2)
            if (L1 == L2) is not exp or (L1 != L2) is not (not exp):
                fail("wrong-equality", "Location", f"({u1!r},{r1}) vs ({u2!r},{r2}): == {L1 == L2}", case)
            rr = f"{r1[0][0]}:{r1[0][1]}-{r1[1][0]}:{r1[1][1]}"
            if repr(R1.start) != f"{r1[0][0]}:{r1[0][1]}":
                fail("wrong-repr", "Position", f"repr {repr(R1.start)!r}", case)
            if repr(R1) != rr:
                fail("wrong-repr", "Range", f"repr {repr(R1)!r} expected {rr!r}", case)
            if repr(L1) != f"{u1}:{rr}":
                fail("wrong-repr", "Location", f"repr {repr(L1)!r}", case)
        except Exception as e:
            fail(f"raises:{type(e).__name__}", "Range/Location", str(e)[:100], case)
        distinct.add((r1, r2, u1, u2))

    t_ranges()
    # every ordered pair of the near-equal uris, with equal and with different ranges (exhaustive)
    for u1 in NEAR_URIS:
        for u2 in NEAR_URIS:
            t_ranges.hypothesis.inner_test(((0, 1), (2, 3)), ((0, 1), (2, 3)), u1, u2, False, False)
            t_ranges.hypothesis.inner_test(((0, 1), (2, 3)), ((0, 1), (2, 4)), u1, u2, False, False)
    samples.append({"range_pair": [[[0, 1], [2, 3]], [[0, 1], [2, 3]]], "uris": ["file:///a", "file:///b"]})

    # 3. foreign objects
    import attrs

    @attrs.define
    class Lookalike:
        line: int = 0
        character: int = 0

    P0 = Position(line=1, character=2)
    R0 = mk_range(((1, 2), (3, 4)))
    L0 = Location(uri="u", range=R0)
    foreign = [None, 0, 1, (1, 2), [1, 2], "1:2", {"line": 1, "character": 2}, 1.5, object(), Lookalike(1, 2), t.TextEdit(range=R0, new_text="")]
    subjects = [("Position", P0), ("Range", R0), ("Location", L0)]

    def lookalikes(x: Any) -> List[Any]:
        """unrelated objects carrying the same attribute names and values as x: plain namespace, namedtuple,
        a same-shaped attrs class, and every *other* protocol class whose fields include x's fields."""
        import collections as _c
        import types as _t
        names = [a.name for a in attrs.fields(type(x))]
        vals = {n: getattr(x, n) for n in names}
        out: List[Any] = [_t.SimpleNamespace(**vals), _c.namedtuple("Tup", names)(**vals),
                          attrs.make_class("Shape", names)(**vals), vals]
        from .. import tvgen as _tv
        from ..hyp import mini as _mini
        for cname, cls in vars(t).items():
            if isinstance(cls, type) and attrs.has(cls) and cls is not type(x) and cname in sub.model.structs:
                fn = {a.name for a in attrs.fields(cls)}
                if set(names) <= fn:
                    made: List[Any] = []
                    _mini(_tv.value_strategy(sub.objects, ("struct", cname), _tv.GenCfg(mode="min", decimal_ints=False)), 1,
                          (ctx.seed, "C20", "lookalike", cname), lambda v: made.append(v[0]))
                    try:
                        out.append(attrs.evolve(sub.build(made[0]), **vals))
                    except Exception:
                        pass
        return out

    n_lookalikes = 0
    for (n1, x) in subjects:
        extra = lookalikes(x)
        n_lookalikes += len(extra)
        others = foreign + extra + [y for n2, y in subjects if n2 != n1]
        for f in others:
            evaluations += 1
            case = {"subject": n1, "foreign": repr(f)}
            try:
                if (x == f) is not False or (x != f) is not True or (f == x) is not False or (f != x) is not True:
                    fail("foreign-equality", n1, f"== / != against {f!r}", case)
            except Exception as e:
                fail(f"raises:{type(e).__name__}", f"{n1}==foreign", f"{f!r}: {e}", case)
            # "comparing any of them with an unrelated object ... makes the ordering operators raise TypeError": all three
            for name, op in OPS[:4]:
                for l, r in ((x, f), (f, x)):
                    evaluations += 1
                    try:
                        res = op(l, r)
                        fail("foreign-order-accepted", f"{n1}{name}", f"{l!r} {name} {r!r} returned {res!r}", case)
                    except TypeError:
                        pass
                    except Exception as e:
                        fail(f"raises:{type(e).__name__}", f"{n1}{name}foreign", f"{f!r}: {e}", case)
            distinct.add((n1, repr(type(f))))
    samples.append({"foreign": [repr(f) for f in foreign[:6]]})

    # 3b. instances of subclasses (user code derives helpers from the protocol classes): a SpanRange *is* a Range, so
    #     equality and order follow the components whichever operand - or nested component - is of the derived class
    def derive(cls):
        plain = type("Derived" + cls.__name__, (cls,), {"helper": lambda self: None})
        inherited = attrs.define(eq=False, order=False, repr=False)(type("Attrs" + cls.__name__, (cls,), {}))
        return [cls, plain, inherited]

    PCS, RCS, LCS = derive(Position), derive(Range), derive(Location)
    sub_stats = {"pairs": 0}

    def t_subclasses(x):
        nonlocal evaluations
        (a, b, c, d), ci = x
        Pa, Pb = PCS[ci[0]], PCS[ci[1]]
        pa, pb = Pa(line=a[0], character=a[1]), Pb(line=b[0], character=b[1])
        case = {"a": a, "b": b, "classes": [Pa.__name__, Pb.__name__]}
        if ci[0] or ci[1]:
            sub_stats["pairs"] += 1
            distinct.add(("subclass", a, b, ci[0], ci[1]))
        for name, op in OPS:
            evaluations += 1
            try:
                if op(pa, pb) is not op(a, b):
                    fail("wrong-order-subclass", f"Position{name}", f"{Pa.__name__}{a} {name} {Pb.__name__}{b} gave {op(pa, pb)!r}", case)
            except Exception as e:
                fail(f"raises:{type(e).__name__}", f"Position{name}subclass", f"{Pa.__name__}{a} {name} {Pb.__name__}{b}: {e}", case)
        # ranges and locations: outer class and nested component classes vary independently
        r1 = RCS[ci[2]](start=pa, end=PCS[ci[3]](line=c[0], character=c[1]))
        r2 = RCS[ci[4]](start=Position(line=a[0], character=a[1]), end=Position(line=d[0], character=d[1]))
        same_r = c == d
        l1, l2 = LCS[ci[5]](uri="u", range=r1), LCS[ci[6]](uri="u", range=r2)
        for kind, x1, x2 in (("Range", r1, r2), ("Location", l1, l2)):
            evaluations += 1
            case2 = {"a": a, "c": c, "d": d, "classes": [type(x1).__name__, type(x2).__name__, type(r1.start).__name__, type(r1.end).__name__, type(r1).__name__, type(r2).__name__]}
            try:
                if (x1 == x2) is not same_r or (x2 == x1) is not same_r or (x1 != x2) is same_r or (x2 != x1) is same_r:
                    fail("wrong-equality-subclass", kind, f"{type(x1).__name__} vs {type(x2).__name__} with {'equal' if same_r else 'different'} components: == gave {(x1 == x2)!r}/{(x2 == x1)!r}", case2)
            except Exception as e:
                fail(f"raises:{type(e).__name__}", f"{kind}==subclass", str(e)[:100], case2)

    near = st.tuples(coord, coord)
    quad = st.one_of(st.tuples(near, near, near, near), near.map(lambda p: (p, p, p, p)),
                     st.tuples(near, near, near).map(lambda t3: (t3[0], t3[1], t3[2], t3[2])))
    mini(st.tuples(quad, st.tuples(*[st.integers(0, 2)] * 7)), 400 if ctx.quick else 20000, (ctx.seed, "C20", "subclasses"), t_subclasses)
    samples.append({"subclass_operands": [c.__name__ for c in PCS + RCS + LCS], "pairs_with_a_derived_operand": sub_stats["pairs"]})

    # 4. histories: positions/ranges/locations are mutable objects - comparisons must follow the *current* fields
    from hypothesis.stateful import RuleBasedStateMachine, precondition, rule, run_state_machine_as_test
    hist = {"steps": 0, "mutations": 0, "comparisons": 0}

    class Mutable(RuleBasedStateMachine):
        def __init__(self):
            super().__init__()
            self.pos: List[Any] = []
            self.rng: List[Any] = []
            self.log: List[Any] = []

        @rule(l=coord, c=coord)
        def new_position(self, l, c):
            self.pos.append(Position(line=l, character=c))
            self.log.append(["pos", l, c])

        @precondition(lambda self: len(self.pos) >= 2)
        @rule(i=st.integers(0, 50), j=st.integers(0, 50), u=uri)
        def new_range(self, i, j, u):
            a, b = self.pos[i % len(self.pos)], self.pos[j % len(self.pos)]
            r = Range(start=a, end=b)
            self.rng.append((r, Location(uri=u, range=r), u))
            self.log.append(["range", i % len(self.pos), j % len(self.pos)])

        @precondition(lambda self: self.pos)
        @rule(i=st.integers(0, 50), field=st.sampled_from(["line", "character"]), v=coord)
        def mutate(self, i, field, v):
            setattr(self.pos[i % len(self.pos)], field, v)
            hist["mutations"] += 1
            self.log.append(["set", i % len(self.pos), field, v])

        @precondition(lambda self: self.pos)
        @rule(i=st.integers(0, 50), j=st.integers(0, 50))
        def compare(self, i, j):
            nonlocal evaluations
            a, b = self.pos[i % len(self.pos)], self.pos[j % len(self.pos)]
            ta, tb = (a.line, a.character), (b.line, b.character)
            for name, op in OPS:
                evaluations += 1
                hist["comparisons"] += 1
                try:
                    if op(a, b) is not op(ta, tb):
                        fail("wrong-order-after-history", f"Position{name}", f"{ta} {name} {tb} gave {op(a, b)!r} after {self.log[-6:]}", {"history": self.log[-12:]})
                except Exception as e:
                    fail(f"raises:{type(e).__name__}", f"Position{name}", str(e)[:100], {"history": self.log[-12:]})
            if repr(a) != f"{ta[0]}:{ta[1]}":
                fail("wrong-repr", "Position", f"repr {a!r} for {ta}", {"history": self.log[-12:]})
            for (r1, l1, u1) in self.rng[-3:]:
                for (r2, l2, u2) in self.rng[-3:]:
                    evaluations += 1
                    t1 = ((r1.start.line, r1.start.character), (r1.end.line, r1.end.character))
                    t2 = ((r2.start.line, r2.start.character), (r2.end.line, r2.end.character))
                    if (r1 == r2) is not (t1 == t2) or (l1 == l2) is not (t1 == t2 and u1 == u2):
                        fail("wrong-equality-after-history", "Range/Location", f"{t1} vs {t2} after {self.log[-6:]}", {"history": self.log[-12:]})
            hist["steps"] += 1
            distinct.add(("hist", ta, tb, len(self.log)))

    run_state_machine_as_test(
        hypothesis.seed(derive_seed(ctx.seed, "C20", "hist"))(Mutable),
        settings=settings(max_examples=60 if ctx.quick else 1500, stateful_step_count=25, **common))
    samples.append({"history_rules": ["new_position", "new_range", "mutate", "compare"], "counts": dict(hist)})

    ctx.coverage.update({
        "evaluations": evaluations, "distinct_nontrivial": len(distinct), "rule": RULE, "samples": samples,
        "mutation_histories": dict(hist),
        "grid_pairs_exhaustive": grid_pairs, "random_pairs": n, "random_range_location_pairs": n,
        "lookalike_foreign_objects": n_lookalikes,
        "exhaustive": False,
    })
    ctx.assumptions = ["coordinates are valid uintegers (the constructor rejects others, C12)"]


def replay(ctx: Ctx, path: str) -> int:
    with open(path) as f:
        rp = json.load(f)
    print(f"[C20] replay: case {rp['case']} — re-run ./check C20 (the grid and foreign-object parts are exhaustive and deterministic)")
    run(ctx)
    return ctx.finish()
