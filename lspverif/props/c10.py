"""C10 — null-versus-omitted rule holds for every property of every class."""
from __future__ import annotations

import collections
import copy
import json
from typing import Any, Dict, List, Tuple

from hypothesis import strategies as st

from .. import runner, tvgen, valuecheck
from ..hyp import mini
from ..oracle import jeq
from ..refmodel import snake
from ..runner import Ctx
from ..tvgen import GenCfg, S, TV, erase, to_json
from .c01 import exc_detail, exc_frame, exc_sig

RULE = (
    "exhaustive over every attribute of every generated class (structures, the 'and' class, request/response/"
    "notification envelopes, ResponseError[Message]); for each, k generated valid surroundings in three variants: "
    "attribute set to a generated non-null value, set to null (null-admitting only), unset. Built through the "
    "constructor and serialised; oracle: key written <=> not (unset and optional and not null-admitting); unset "
    "null-admitting -> null; literals / method / jsonrpc / response result always written. Parse direction: the key is "
    "deleted from the JSON of a null-admitting or literal (or optional) property; structuring succeeds and the attribute "
    "reads None / the literal. non-trivial = every toggled case; distinct = sha256(class, attribute, variant, JSON)"
)


def class_keys(sub) -> List[tuple]:
    m = sub.model
    keys: List[tuple] = [("struct", n) for n in m.structs]
    for locus, t in sub.objects.type_at.items():
        if t["kind"] == "and" and (locus.endswith(":registrationOptions") or locus.endswith(":params")):
            keys.append(("and", locus))
    for kind, msg in m.messages():
        if kind == "request":
            keys.append(("msg", "request", msg["method"]))
            keys.append(("msg", "response", msg["method"]))
        else:
            keys.append(("msg", "notification", msg["method"]))
    keys.append(("special", "ResponseError"))
    keys.append(("special", "ResponseErrorMessage"))
    return keys


def _work(args) -> dict:
    keys, seed, k = args
    return check_keys(valuecheck.subject(), keys, seed, k)


def check_keys(sub, keys, seed: int, k: int) -> dict:
    m = sub.model
    ctx = Ctx("C10", "quick", seed)
    res: Dict[str, Any] = {"evaluations": 0, "hashes": set(), "samples": [], "variants": collections.Counter(), "attributes": 0}
    for key in keys:
        try:
            cls = sub.class_for(key)
        except Exception as e:
            ctx.finding(("no-class", str(key), "-"), repr(e), {"key": list(key)})
            continue
        cname = cls.__name__
        root = key if key[0] != "and" else ("type", key[1])
        for p in sub.objects.props(key):
            res["attributes"] += 1
            ploc = sub.objects.prop_locus(key, p)
            name = p["name"]
            attr = snake(name)
            lit = p["type"]["kind"] == "stringLiteral"
            nulladm = m.admits_null(p["type"])
            always = bool(p.get("_always"))
            optional = bool(p.get("optional"))
            special = lit or nulladm or always
            can_unset = optional or special

            def judge(tv: TV, variant: str) -> None:
                # tv is the surrounding object; variant decides what happens to `name`
                props = dict(tv.props)
                if variant == "unset":
                    props.pop(name, None)
                if variant == "unset" and always and not nulladm and p["type"].get("name") != "null":
                    # a response whose declared result type does not admit null: the class still lets the result unset
                    # (and parsing a reply without one gives that object) - "always written" holds for it too
                    res["unset_nonnull_result"] = res.get("unset_nonnull_result", 0) + 1
                tvv = S(tv.key, props)
                j = erase(tvv)
                value_is_null = name in props and erase(props[name]) is None
                res["evaluations"] += 1
                res["variants"][variant] += 1
                res["hashes"].add(tvgen.canon_hash([cname, attr, variant, j]))
                case = {"class": cname, "attr": attr, "variant": variant, "json": j, "key": list(key), "tv": to_json(tvv), "prop": name}
                if len(res["samples"]) < 2 and len(json.dumps(j)) < 200:
                    res["samples"].append({"class": cname, "attribute": attr, "variant": variant, "json": j})
                try:
                    obj = sub.build(tvv)
                    o = json.loads(json.dumps(sub.conv.unstructure(obj, cls)))
                except Exception as e:
                    ctx.finding((f"raises:{exc_sig(e)}", ploc, f"ctor:{variant}"), f"{cname}.{attr}: {exc_detail(e)}", case)
                    return
                unset = variant == "unset" or value_is_null
                must_write = not (unset and optional and not nulladm and not lit and not always)
                if lit or always or nulladm or not optional:
                    must_write = True
                if must_write and name not in o:
                    ctx.finding(("omitted", ploc, variant), f"{cname}.{attr} ({variant}) must be written but is absent: {json.dumps(o)[:150]}", case)
                elif not must_write and name in o:
                    ctx.finding(("written", ploc, variant), f"{cname}.{attr} ({variant}) must be omitted but is written as {o[name]!r}", case)
                elif name in o:
                    if unset:
                        exp = p["type"]["value"] if lit and variant == "unset" else None
                        if lit and variant != "unset":
                            exp = erase(props[name])
                        if not jeq(o[name], exp):
                            ctx.finding(("wrong-value", ploc, variant), f"{cname}.{attr} ({variant}) written as {o[name]!r}, expected {exp!r}", case)
                    elif not jeq(o[name], sub.nf(props[name])):
                        ctx.finding(("wrong-value", ploc, variant), f"{cname}.{attr} written as {str(o[name])[:80]!r}", case)
                # parse direction: delete the key
                if variant == "unset" and can_unset:
                    res["evaluations"] += 1
                    try:
                        obj2 = sub.conv.structure(j, cls)
                    except Exception as e:
                        fr = exc_frame(e)
                        # a failure caused elsewhere in the value is not C10's: re-try with the key present
                        try:
                            sub.conv.structure(erase(tv), cls)
                        except Exception:
                            return
                        ctx.finding((f"raises:{exc_sig(e)}", ploc, "parse-absent"), f"{cname} without {name}: {exc_detail(e)}", case)
                        return
                    got = getattr(obj2, attr, "<no attribute>")
                    exp = p["type"]["value"] if lit else None
                    if got != exp:
                        ctx.finding(("wrong-default", ploc, "parse-absent"), f"{cname}.{attr} reads {got!r} when absent, expected {exp!r}", case)

            cfg_set = GenCfg(route=[ploc], decimal_ints=False)

            def one(x):
                tv, _ = x
                if name in tv.props:
                    v = erase(tv.props[name])
                    if v is None:
                        judge(tv, "set-null" if (nulladm or not can_unset) else "unset")
                    else:
                        judge(tv, "set")
                if can_unset:
                    judge(tv, "unset")

            mini(tvgen.value_strategy(sub.objects, root if root[0] != "type" else root, cfg_set), k, (seed, "C10", cname, attr), one)
    res["violations"] = list(ctx.violations.values())
    res["known_hits"] = ctx.known_hits
    res["known_examples"] = ctx.known_examples
    res["variants"] = dict(res["variants"])
    res.setdefault("unset_nonnull_result", 0)
    return res


def run(ctx: Ctx) -> None:
    sub = valuecheck.subject()
    keys = class_keys(sub)
    k = 5 if ctx.quick else 100
    shards = runner.chunks(keys, runner.NPROC * 4)
    results = runner.pmap(_work, [(sh, ctx.seed, k) for sh in shards])
    evaluations = attrs_n = 0
    hashes = set()
    variants: collections.Counter = collections.Counter()
    samples = []
    skipped = 0
    for r in results:
        skipped += r["unset_nonnull_result"]
        evaluations += r["evaluations"]
        attrs_n += r["attributes"]
        hashes |= r["hashes"]
        variants.update(r["variants"])
        samples.extend(r["samples"])
        ctx.merge_worker(r)
    ctx.coverage.update({
        "evaluations": evaluations, "distinct_nontrivial": len(hashes), "rule": RULE, "samples": samples[:6],
        "classes": len(keys), "attributes": attrs_n, "surroundings_per_attribute": k, "cases_by_variant": dict(variants),
        "exhaustive": False, "note": "exhaustive over (class, attribute); surroundings sampled",
        "unset_result_of_non_nullable_type_cases": skipped,
    })
    ctx.assumptions = ["a generated null at an optional non-null-admitting property (only LSPAny payloads) counts as unset: Python has one None"]


def replay(ctx: Ctx, path: str) -> int:
    sub = valuecheck.subject()
    with open(path) as f:
        rp = json.load(f)
    c = rp["case"]
    if "tv" not in c:
        run(ctx)
        return ctx.finish()
    key = tuple(c["key"])
    cls = sub.class_for(key)
    tv = tvgen.from_json(c["tv"])
    obj = sub.build(tv)
    o = json.loads(json.dumps(sub.conv.unstructure(obj, cls)))
    print(f"[C10] replay: {c['class']}.{c['attr']} ({c['variant']}): output {json.dumps(o)[:300]}")
    sig = rp["signature"]
    present = c["prop"] in o
    if (sig[0] == "omitted" and not present) or (sig[0] == "written" and present):
        print(f"VIOLATION property=C10 replay={path}")
        return 1
    return 0
