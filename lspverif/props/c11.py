"""C11 — spec-invalid single-field deviations are rejected, never silently repaired."""
from __future__ import annotations

import collections
import copy
import json
from typing import Any, Dict, List, Optional, Tuple

from hypothesis import strategies as st

from .. import runner, tvgen, valuecheck
from ..hyp import mini
from ..refmodel import INT_MAX, INT_MIN, UINT_MAX
from ..runner import Ctx
from ..tvgen import GenCfg, L, Mp, S, T, TV, U, erase, to_json

RULE = (
    "for every structure: (a) exhaustively every root-level (property, edit) pair eligible for one of the four edits "
    "{delete required non-null-admitting non-literal property, out-of-range int at a directly integer/uinteger typed "
    "property, outside value at a closed-enumeration reference, different string at a string literal}, each inside k "
    "generated valid surroundings; (b) random nested edit sites reachable from the root without crossing a real union "
    "(or[X,null] is crossed). The unedited value must parse; oracle: structuring the edited value raises. "
    "non-trivial = every edited case; distinct = sha256(root, edited JSON)"
)

# JSON numbers: the same out-of-range quantities also as they arrive when the sender wrote them with a fraction or exponent
# (the last two have a fraction and stay outside the range when it is cut off: the control next to the known finding below)
OUT_INT = [INT_MIN - 1, INT_MAX + 1, 2**40, -(2**40), 2**63, float(INT_MAX + 1), float(INT_MIN - 1), 1e12, INT_MAX + 1.5, INT_MIN - 1.5]
OUT_INT_FRACTION = [INT_MAX + 0.5, INT_MIN - 0.5, INT_MAX + 0.25, INT_MIN - 0.75]
OUT_UINT_FRACTION = [-0.5, UINT_MAX + 0.5, -0.25, -0.999]
OUT_UINT = [-1, UINT_MAX + 1, 2**40, -(2**31), -1.0, float(UINT_MAX + 1), 1e12, UINT_MAX + 1.5, -1.5]


def null_only_union(sub, occ: str) -> bool:
    t = sub.objects.type_at.get(occ)
    if t is None or t["kind"] != "or":
        return False
    return sum(1 for i in t["items"] if not sub.model.is_null(i)) == 1


def int_or_null(t: dict) -> Optional[str]:
    if t["kind"] == "or" and len(t["items"]) == 2 and all(i["kind"] == "base" for i in t["items"]):
        names = sorted(i["name"] for i in t["items"])
        if names in (["integer", "null"], ["null", "uinteger"]):
            return "integer" if "integer" in names else "uinteger"
    return None


def edits_for(sub, p: dict) -> List[str]:
    m = sub.model
    t = p["type"]
    out = []
    if not p.get("optional") and not m.is_special(p):
        out.append("delete-required")
    if t["kind"] == "base" and t["name"] in ("integer", "uinteger"):
        out.append("int-out-of-range")
        out.append("int-out-of-range-fraction")
    if int_or_null(t):
        out.append("int-out-of-range")   # `integer | null` is an integer property too
        out.append("int-out-of-range-fraction")
    if t["kind"] == "reference" and t["name"] in m.enums and not m.enum_open(t["name"], True):
        out.append("enum-outside")
    if t["kind"] == "stringLiteral":
        out.append("literal-different")
    return out


_DICTIONARY: dict = {}


def package_constants(sub) -> dict:
    """string and integer constants of the hand-written modules of the package under test (a fuzzing dictionary): a value
    that hand-written code compares with or maps from is the outside value most likely to be let through."""
    key = sub.package
    if key not in _DICTIONARY:
        import ast
        import importlib
        import os
        strs, ints = set(), set()
        pkg_dir = os.path.dirname(importlib.import_module(sub.package).__file__)
        for fn in sorted(os.listdir(pkg_dir)):
            if not fn.endswith(".py") or fn == "types.py":
                continue
            try:
                tree = ast.parse(open(os.path.join(pkg_dir, fn), encoding="utf-8").read())
            except SyntaxError:
                continue
            for node in ast.walk(tree):
                if isinstance(node, ast.Constant):
                    if isinstance(node.value, str) and 0 < len(node.value) <= 40 and "\n" not in node.value:
                        strs.add(node.value)
                    elif isinstance(node.value, int) and not isinstance(node.value, bool):
                        ints.add(node.value)
        _DICTIONARY[key] = {"str": sorted(strs), "int": sorted(ints)}
    return _DICTIONARY[key]


def replacement(sub, p: dict, edit: str, sel: int) -> Any:
    t = p["type"]
    if edit == "int-out-of-range":
        pool = OUT_INT if (int_or_null(t) or t["name"]) == "integer" else OUT_UINT
        return pool[sel % len(pool)]
    if edit == "int-out-of-range-fraction":
        # numbers outside the range by less than one: cutting the fraction off would bring them inside
        pool = OUT_INT_FRACTION if (int_or_null(t) or t["name"]) == "integer" else OUT_UINT_FRACTION
        return pool[sel % len(pool)]
    if edit == "enum-outside":
        e = sub.model.enums[t["name"]]
        vals = [v["value"] for v in e["values"]]
        if e["type"]["name"] == "string":
            v0 = vals[sel % len(vals)]
            pool = [v0 + "_x", "", v0.upper() + "?", "é", v0.upper(), v0.capitalize(), v0[:-1], v0 + " ", " " + v0, v0[:1]]
            pool = [x for x in dict.fromkeys(pool) if x not in vals]
        else:
            pool = [max(vals) + 1, 0, max(vals) + 1000, UINT_MAX, min(vals) - 1 if min(vals) > 0 else max(vals) + 2]
            pool = [x for x in dict.fromkeys(pool) if x not in vals and x >= 0]
            pool += [float(max(vals) + 1), float(max(vals) + 7), max(vals) + 0.5]   # JSON numbers written with a fraction / exponent
            pool += [n for n in package_constants(sub)["int"] if n not in vals and n >= 0][:20]
        return pool[(sel // 7) % len(pool)]
    if edit == "literal-different":
        v = t["value"]
        others = sorted({tt["value"] for _, tt in sub.objects.type_at.items() if tt["kind"] == "stringLiteral"} - {v})
        pool = [v + "x", "", v.upper(), "other", v[:-1], v[1:], v[:1], " " + v, v + " ", v + "\n", v.capitalize(), "x" + v] + others
        pool = [x for x in dict.fromkeys(pool) if x != v]
        return pool[sel % len(pool)]
    raise ValueError(edit)


def edit_sites(sub, tv: TV) -> List[Tuple[tuple, S, dict, str]]:
    """(json path, object node, property, edit) reachable without crossing a real union."""
    out = []

    def rec(n: TV, path: tuple) -> None:
        if isinstance(n, U):
            if null_only_union(sub, n.occ):
                rec(n.child, path)
            return
        if isinstance(n, S):
            props = {p["name"]: p for p in sub.objects.props(n.key)}
            for k, v in n.props.items():
                p = props[k]
                for e in edits_for(sub, p):
                    out.append((path, n, p, e))
                rec(v, path + (k,))
        elif isinstance(n, (L, T)):
            for i, v in enumerate(n.items):
                rec(v, path + (i,))
        elif isinstance(n, Mp):
            for k, v in n.items.items():
                rec(v, path + (k,))

    rec(tv, ())
    return out


def apply_edit(j: Any, path: tuple, p: dict, edit: str, value: Any) -> Any:
    j2 = copy.deepcopy(j)
    node = j2
    for step in path:
        node = node[step]
    if edit == "delete-required":
        del node[p["name"]]
    else:
        node[p["name"]] = value
    return j2


_NO = object()


def judge(sub, ctx: Ctx, root: tuple, tv: TV, site, sel: int, res: dict, value: Any = _NO) -> None:
    path, node, p, edit = site
    j = erase(tv)
    T = sub.root_type(root)
    try:
        sub.conv.structure(j, T)
    except Exception:
        res["unedited_rejected"] += 1
        return  # C01's matter
    val = value if value is not _NO else (None if edit == "delete-required" else replacement(sub, p, edit, sel))
    j2 = apply_edit(j, path, p, edit, val)
    res["evaluations"] += 1
    res["edits"][edit] += 1
    res["nested" if path else "root"] += 1
    res["hashes"].add(tvgen.canon_hash([valuecheck.root_name(root), j2]))
    ploc = sub.objects.prop_locus(node.key, p)
    if len(res["samples"]) < 2 and len(json.dumps(j2)) < 250:
        res["samples"].append({"root": valuecheck.root_name(root), "edit": edit, "property": ploc, "path": list(path), "edited_json": j2})
    try:
        obj = sub.conv.structure(j2, T)
    except Exception:
        return
    ctx.finding(("accepted-invalid", ploc, edit),
                f"root {valuecheck.root_name(root)}: edit {edit} at {'/'.join(map(str, path)) or '<root>'}.{p['name']} -> {val!r} accepted",
                {"root": list(root), "json": j, "edited_json": j2, "tv": to_json(tv), "path": list(path), "prop": p["name"], "edit": edit, "value": val})


def _work(args) -> dict:
    structs, seed, k_root, n_nested = args
    sub = valuecheck.subject()
    ctx = Ctx("C11", "quick", seed)
    res: Dict[str, Any] = {"evaluations": 0, "hashes": set(), "samples": [], "edits": collections.Counter(),
                           "root": 0, "nested": 0, "unedited_rejected": 0, "root_pairs": 0, "dictionary_probes": 0}
    for name in structs:
        root = ("struct", name)
        key = root
        # (a) exhaustive root-level pairs
        for p in sub.objects.props(key):
            ploc = sub.objects.prop_locus(key, p)
            for edit in edits_for(sub, p):
                res["root_pairs"] += 1
                strat = st.tuples(tvgen.value_strategy(sub.objects, root, GenCfg(route=[ploc])), st.integers(0, 100))

                def mk(p, edit):
                    def one(x):
                        (tv, _), sel = x
                        judge(sub, ctx, root, tv, ((), tv, p, edit), sel, res)
                    return one

                mini(strat, k_root, (seed, "C11a", name, p["name"], edit), mk(p, edit))
                # every constant of the package's hand-written modules that is not an allowed value, once
                t_ = p["type"]
                if edit == "enum-outside":
                    e_ = sub.model.enums[t_["name"]]
                    allowed = {v["value"] for v in e_["values"]}
                    words = package_constants(sub)["str" if e_["type"]["name"] == "string" else "int"]
                elif edit == "literal-different":
                    allowed, words = {t_["value"]}, package_constants(sub)["str"]
                else:
                    allowed, words = set(), []
                words = [w for w in words if w not in allowed]
                if words:
                    def mk2(p, edit, words):
                        def one(x):
                            (tv, _), sel = x
                            for w in words:
                                res["dictionary_probes"] += 1
                                judge(sub, ctx, root, tv, ((), tv, p, edit), sel, res, value=w)
                        return one
                    mini(strat, 1, (seed, "C11dict", name, p["name"], edit), mk2(p, edit, words))
        # (b) random nested sites
        strat = st.tuples(tvgen.value_strategy(sub.objects, root), st.integers(0, 10**6), st.integers(0, 100))

        def two(x):
            (tv, _), pick, sel = x
            sites = [s for s in edit_sites(sub, tv) if s[0]]
            if not sites:
                return
            judge(sub, ctx, root, tv, sites[pick % len(sites)], sel, res)

        mini(strat, n_nested, (seed, "C11b", name), two)
    res["violations"] = list(ctx.violations.values())
    res["known_hits"] = ctx.known_hits
    res["known_examples"] = ctx.known_examples
    res["edits"] = dict(res["edits"])
    return res


def run(ctx: Ctx) -> None:
    sub = valuecheck.subject()
    structs = list(sub.model.structs)
    k_root, n_nested = (10, 80) if ctx.quick else (60, 600)
    shards = runner.chunks(structs, runner.NPROC * 3)
    results = runner.pmap(_work, [(sh, ctx.seed, k_root, n_nested) for sh in shards])
    tot: Dict[str, Any] = {"evaluations": 0, "root": 0, "nested": 0, "unedited_rejected": 0, "root_pairs": 0, "dictionary_probes": 0}
    hashes = set()
    edits: collections.Counter = collections.Counter()
    samples = []
    for r in results:
        for k in tot:
            tot[k] += r[k]
        hashes |= r["hashes"]
        edits.update(r["edits"])
        samples.extend(r["samples"])
        ctx.merge_worker(r)
    ctx.coverage.update({
        "evaluations": tot["evaluations"], "distinct_nontrivial": len(hashes), "rule": RULE, "samples": samples[:6],
        "dictionary_probes": tot["dictionary_probes"], "root_level_pairs_enumerated": tot["root_pairs"], "root_level_cases": tot["root"], "nested_cases": tot["nested"],
        "cases_by_edit": dict(edits), "unedited_value_rejected_skipped": tot["unedited_rejected"],
        "exhaustive": False,
    })
    ctx.assumptions = [
        "closed enumeration = metamodel enumeration without supportsCustomValues, CompletionItemKind excepted (documented python customisation)",
        "edit sites are never below a real union: there the edited value could legitimately be re-read as a sibling alternative",
    ]


def replay(ctx: Ctx, path: str) -> int:
    sub = valuecheck.subject()
    with open(path) as f:
        rp = json.load(f)
    c = rp["case"]
    T = sub.root_type(tuple(c["root"]))
    try:
        sub.conv.structure(c["edited_json"], T)
    except Exception as e:
        print(f"[C11] replay: edited value is rejected now ({type(e).__name__})")
        return 0
    print(f"VIOLATION property=C11 replay={path}\n  edited value accepted: {json.dumps(c['edited_json'])[:300]}")
    return 1
