"""C04 — the generated Python package is a complete, faithful image of the metamodel."""
from __future__ import annotations

import enum
import json
import typing
from typing import Any, Dict, List, Optional, Sequence, Tuple, Union

import attrs
import hypothesis
from hypothesis import HealthCheck, given, settings, strategies as st

from .. import tvgen, valuecheck
from ..refmodel import Model, snake
from ..runner import Ctx, HarnessError, derive_seed
from ..tvgen import S, strip_u

RULE = (
    "exhaustive enumeration of every structure / enumeration / alias / 'and' type of lsp.json and, in the reverse "
    "direction, of every attrs class, Enum and alias object of lsprotocol.types; per flattened property the facets "
    "{attribute exists, wire name round-trips, required <=> not optional/null-admitting/literal, resolved annotation == "
    "independently mapped typing object, validator identity, literal default} are compared with an independent "
    "re-implementation of the documented mapping; plus Hypothesis-generated constructor calls with one wrongly typed "
    "base-type argument. evaluations = facet comparisons; non-trivial = flattened property that is inherited, optional, "
    "null-admitting, literal or union-typed; distinct = (class, property)"
)

PY_BASE = {"string": str, "DocumentUri": str, "URI": str, "RegExp": str, "integer": int, "uinteger": int, "decimal": float, "boolean": bool}


class Mapper:
    """Independent metamodel-type -> typing object mapping (documented in the plugin's comments)."""

    def __init__(self, sub):
        self.sub = sub
        self.m: Model = sub.model
        self.t = sub.types

    def ref(self, name: str) -> Any:
        if name == "LSPAny":
            return Union[Any, None]
        if name == "LSPObject":
            return getattr(self.t, "LSPObject")
        if name == "LSPArray":
            return Sequence[Union[Any, None]]
        if name in self.m.enums:
            e = self.m.enums[name]
            cls = getattr(self.t, name)
            if self.m.enum_open(name, True):
                return Union[cls, str if e["type"]["name"] == "string" else int]
            return cls
        if name in self.m.aliases:
            return self.map(self.m.aliases[name]["type"], f"alias:{name}")
        if name in self.m.structs:
            return getattr(self.t, name)
        raise KeyError(name)

    def map(self, t: dict, locus: str) -> Any:
        k = t["kind"]
        if k == "base":
            if t["name"] == "null":
                return type(None)
            return PY_BASE[t["name"]]
        if k == "stringLiteral":
            return str
        if k == "reference":
            return self.ref(t["name"])
        if k == "array":
            return Sequence[self.map(t["element"], f"{locus}|[]")]
        if k == "map":
            return Dict[self.map(t["key"], locus), self.map(t["value"], f"{locus}|{{}}")]
        if k == "tuple":
            return Tuple[tuple(self.map(it, f"{locus}|{i}") for i, it in enumerate(t["items"]))]
        if k == "or":
            return Union[tuple(self.map(it, f"{locus}|{i}") for i, it in enumerate(t["items"]))]
        if k == "literal":
            if len(t["value"]["properties"]) == 0:
                return Any
            return self.sub.class_for(("lit", locus))
        if k == "and":
            return self.sub.class_for(("and", locus))
        raise ValueError(k)


def resolve_forward(tp: Any, ns: Dict[str, Any], depth: int = 0) -> Any:
    """Replace ForwardRefs / strings inside a typing object by the named objects of the package."""
    if depth > 50:
        raise HarnessError("alias resolution does not terminate")
    if isinstance(tp, str):
        return resolve_forward(ns[tp], ns, depth + 1)
    if isinstance(tp, typing.ForwardRef):
        return resolve_forward(ns[tp.__forward_arg__], ns, depth + 1)
    origin = typing.get_origin(tp)
    if origin is None:
        return tp
    args = tuple(resolve_forward(a, ns, depth + 1) for a in typing.get_args(tp))
    if origin is Union:
        return Union[args]
    import collections.abc as cabc
    if origin is cabc.Sequence:
        return Sequence[args[0]]
    if origin is dict:
        return Dict[args[0], args[1]]
    if origin is tuple:
        return Tuple[args]
    return tp


def validator_desc(v: Any) -> Any:
    if v is None:
        return None
    n = type(v).__name__
    if n == "_OptionalValidator":
        return ("optional", validator_desc(v.validator))
    if n == "_InstanceOfValidator":
        return ("instance_of", v.type)
    if n == "_InValidator":
        return ("in", tuple(v.options))
    if callable(v) and hasattr(v, "__name__"):
        return ("fn", v.__module__.split(".")[-1], v.__name__)
    return ("other", repr(v))


def expected_validator(p: dict) -> Any:
    t = p["type"]
    base = None
    if t["kind"] == "base":
        n = t["name"]
        if n == "integer":
            base = ("fn", "validators", "integer_validator")
        elif n == "uinteger":
            base = ("fn", "validators", "uinteger_validator")
        elif n in ("string", "DocumentUri", "URI", "RegExp"):
            base = ("instance_of", str)
        elif n == "boolean":
            base = ("instance_of", bool)
        elif n == "decimal":
            base = ("instance_of", float)
    elif t["kind"] == "stringLiteral":
        return ("in", (t["value"],))
    elif t["kind"] == "or" and len(t["items"]) == 2 and all(i["kind"] == "base" for i in t["items"]) \
            and [i["name"] for i in t["items"]].count("null") == 1:
        # `B | null`: a property of base type B all the same - B's validator holds whenever the value is not null
        # (`integer | null` keeps its range - C11; `string | null` is a string when it is not null)
        inner = expected_validator({"type": next(i for i in t["items"] if i["name"] != "null")})
        return ("optional", inner) if inner is not None else None
    if t["kind"] == "or" and len(t["items"]) == 2 and sorted(i["kind"] for i in t["items"]) == ["base", "stringLiteral"] \
            and any(i["kind"] == "base" and i["name"] == "null" for i in t["items"]):
        # `"x" | null`: a string-literal property all the same - it only accepts its literal (or null)
        return ("optional", ("in", (next(i["value"] for i in t["items"] if i["kind"] == "stringLiteral"),)))
    if base is None:
        return None
    return ("optional", base) if p.get("optional") else base


def camel_from_attr(name: str) -> str:
    """attribute name -> wire name, my own statement of the documented rule."""
    if name.endswith("_"):
        name = name[:-1]
    parts = name.split("_")
    return parts[0] + "".join(x[:1].upper() + x[1:].lower() for x in parts[1:])


def run(ctx: Ctx, sub=None, dynamic: bool = True) -> None:
    sub = sub or valuecheck.subject()
    m, t = sub.model, sub.types
    mp = Mapper(sub)
    evaluations = 0
    nontrivial = set()
    samples: List[Any] = []

    def fail(sym: str, locus: str, detail: str) -> None:
        ctx.finding((sym, locus, "-"), detail, {"locus": locus, "detail": detail})

    def check_class(cls_name: str, key: tuple, cls: Any) -> None:
        nonlocal evaluations
        props = sub.objects.props(key)
        if not (isinstance(cls, type) and attrs.has(cls)):
            fail("not-attrs-class", cls_name, f"{cls!r}")
            return
        sub.container = key[1] if key[0] == "struct" else (key if key[0] == "and" else None)
        fields = {f.name: f for f in attrs.fields(cls)}
        expected_attrs = {}
        for p in props:
            a = snake(p["name"])
            if a in expected_attrs:
                fail("attribute-collision", f"{cls_name}.{p['name']}", f"{a} also stands for {expected_attrs[a]['name']}")
            expected_attrs[a] = p
        evaluations += 1
        for a in fields:
            if a not in expected_attrs:
                fail("extra-attribute", f"{cls_name}.{a}", "attribute corresponds to no flattened property")
        for a, p in expected_attrs.items():
            locus = f"{cls_name}.{p['name']}"
            ploc = sub.objects.prop_locus(key, p)
            evaluations += 1
            if a not in fields:
                fail("missing-attribute", locus, f"no attribute {a}")
                continue
            f = fields[a]
            # wire name
            evaluations += 1
            if camel_from_attr(a) != p["name"]:
                fail("wire-name", locus, f"attribute {a} renames to {camel_from_attr(a)!r}")
            # requiredness
            evaluations += 1
            lit = p["type"]["kind"] == "stringLiteral"
            nulladm = m.admits_null(p["type"])
            req = not p.get("optional") and not nulladm and not lit
            if (f.default is attrs.NOTHING) != req:
                fail("requiredness", locus, f"default={f.default!r} but required={req}")
            if not req:
                exp_default = p["type"]["value"] if lit else None
                evaluations += 1
                if f.default != exp_default:
                    fail("default", locus, f"default {f.default!r}, expected {exp_default!r}")
            # annotation
            evaluations += 1
            try:
                exp = mp.map(p["type"], ploc)
                if p.get("optional") or nulladm:
                    exp = Optional[exp]
                got = f.type
                if exp != got:
                    fail("annotation", locus, f"annotation {got!r}, expected {exp!r}")
            except (KeyError, ValueError) as e:
                fail("annotation", locus, f"cannot map metamodel type: {e!r}")
            # validator
            evaluations += 1
            pe = dict(p)
            if nulladm:
                pe["optional"] = True
            expv = expected_validator(pe)
            gotv = validator_desc(f.validator)
            if expv != gotv:
                fail("validator", locus, f"validator {gotv!r}, expected {expv!r}")
            if p.get("optional") or nulladm or lit or p.get("_declared_in") not in (None, key[1]) or p["type"]["kind"] == "or":
                nontrivial.add((cls_name, p["name"]))
        if len(samples) < 4 and props:
            p = props[0]
            samples.append({"class": cls_name, "property": p["name"], "attribute": snake(p["name"]),
                            "annotation": repr(fields.get(snake(p["name"])).type) if snake(p["name"]) in fields else None})

    # --- structures -----------------------------------------------------------------
    expected_classes = {}
    for name in m.structs:
        evaluations += 1
        cls = getattr(t, name, None)
        if cls is None:
            fail("missing-definition", name, "structure has no class")
            continue
        expected_classes[name] = cls
        check_class(name, ("struct", name), cls)
    sub.container = None
    # --- and / non-empty literal types ---------------------------------------------------
    for locus, ty in sub.objects.type_at.items():
        if ty["kind"] == "and" or (ty["kind"] == "literal" and ty["value"]["properties"]):
            key = ("and" if ty["kind"] == "and" else "lit", locus)
            containers: List[Any] = [None]
            if key[0] == "lit" and locus.startswith("struct:"):
                sname, pname = locus.split("|")[0][len("struct:"):].split(".", 1)
                containers += [s for s in m.structs if s != sname and any(
                    p["name"] == pname and p["_declared_in"] == sname for p in m.flat_props(s))]
                # ... and in every `and` class that takes the property over
                containers += [("and", l2) for l2, t2 in sub.objects.type_at.items() if t2["kind"] == "and" and any(
                    p["name"] == pname and p.get("_declared_in") == sname for p in sub.objects.props(("and", l2)))]
            for cont in containers:  # the literal's class in the declaring structure and in every inheritor
                evaluations += 1
                sub.container = cont
                try:
                    cls = sub.class_for(key)
                except Exception as e:
                    fail("missing-definition", locus, f"no class for anonymous type (container {cont}): {e!r}")
                    continue
                finally:
                    sub.container = None
                if cls.__name__ not in expected_classes:
                    expected_classes[cls.__name__] = cls
                    check_class(cls.__name__, key, cls)
    sub.container = None
    # --- enumerations ---------------------------------------------------------------------
    for name, e in m.enums.items():
        evaluations += 1
        cls = getattr(t, name, None)
        if not (isinstance(cls, type) and issubclass(cls, enum.Enum)):
            fail("missing-definition", name, "enumeration has no Enum class")
            continue
        base = str if e["type"]["name"] == "string" else int
        evaluations += 1
        if not issubclass(cls, base):
            fail("enum-base", name, f"not a {base.__name__} enum")
        exp = sorted((repr(v["value"]) for v in e["values"]))
        got = sorted(repr(mm._value_) for mm in cls.__members__.values())
        evaluations += 1
        if exp != got:
            fail("enum-values", name, f"members {got} expected {exp}")
    # --- aliases ----------------------------------------------------------------------------
    ns = dict(vars(t))
    for name, a in m.aliases.items():
        evaluations += 1
        if not hasattr(t, name):
            fail("missing-definition", name, "alias has no module-level definition")
            continue
        obj = getattr(t, name)
        if name == "LSPObject":
            if not isinstance(obj, type):
                fail("alias-type", name, f"{obj!r}")
            continue
        try:
            got = resolve_forward(obj, ns)
            exp = mp.ref(name)
        except Exception as ex:
            fail("alias-type", name, f"cannot resolve: {ex!r}")
            continue
        evaluations += 1
        if got != exp:
            fail("alias-type", name, f"alias object {got!r}, expected {exp!r}")
    # --- reverse direction ----------------------------------------------------------------------
    envelope = {"ResponseError", "ResponseErrorMessage"}
    for kind, msg in m.messages():
        req, resp = m.message_class_names(kind, msg)
        envelope.add(req)
        if resp:
            envelope.add(resp)
    for name, obj in vars(t).items():
        if isinstance(obj, type) and getattr(obj, "__module__", None) == t.__name__:
            evaluations += 1
            if attrs.has(obj):
                if name not in expected_classes and name not in envelope:
                    fail("extra-definition", name, "attrs class corresponds to nothing in the metamodel")
            elif issubclass(obj, enum.Enum):
                if name not in m.enums and name != "MessageDirection":
                    fail("extra-definition", name, "Enum corresponds to no enumeration")
            elif name != "LSPObject":
                fail("extra-definition", name, "class corresponds to nothing in the metamodel")

    # --- dynamic confirmation: wrongly typed base arguments are rejected --------------------
    WRONG = {"string": [1, None, b"x", ["a"]], "DocumentUri": [1, None], "URI": [1, None], "boolean": [0, 1, "true", None],
             "decimal": [1, "1.0", None], "integer": ["1", 1.0, None], "uinteger": ["1", 1.5, None]}
    targets = []
    for name in m.structs:
        for p in m.flat_props(name):
            if p["type"]["kind"] == "base" and p["type"]["name"] in WRONG:
                targets.append((name, p))
            elif p["type"]["kind"] == "stringLiteral":
                targets.append((name, p))
    dyn = 0
    n_per = 2 if ctx.quick else 10

    if not dynamic:
        targets = []
    for idx, (name, p) in enumerate(targets):
        strat = tvgen.value_strategy(sub.objects, ("struct", name), tvgen.GenCfg(decimal_ints=False, route=[f"struct:{p['_declared_in']}.{p['name']}"]))

        @hypothesis.seed(derive_seed(ctx.seed, "C04", name, p["name"]))
        @settings(max_examples=n_per, database=None, deadline=None, suppress_health_check=list(HealthCheck),
                  phases=[hypothesis.Phase.generate], verbosity=hypothesis.Verbosity.quiet)
        @given(strat, st.integers(0, 10))
        def one(x, w):
            nonlocal dyn, evaluations
            tv, _ = x
            cls = getattr(t, name)
            try:
                kwargs = {snake(k): sub.build(v) for k, v in tv.props.items()}
            except Exception:
                return  # the valid surrounding cannot be built: C02's matter, not a validator probe
            if p["type"]["kind"] == "stringLiteral":
                bad = p["type"]["value"] + "x"
            else:
                pool = WRONG[p["type"]["name"]]
                bad = pool[w % len(pool)]
                if bad is None and p.get("optional"):
                    bad = pool[0]
            kwargs[snake(p["name"])] = bad
            dyn += 1
            evaluations += 1
            try:
                cls(**kwargs)
            except Exception:
                return
            ctx.finding(("accepted-wrong-type", f"{name}.{p['name']}", "constructor"),
                        f"{name}({snake(p['name'])}={bad!r}) accepted", {"class": name, "attr": snake(p["name"]), "value": repr(bad)})

        one()

    ctx.coverage.update({
        "evaluations": evaluations, "distinct_nontrivial": len(nontrivial), "rule": RULE, "samples": samples,
        "exhaustive": True, "structures": len(m.structs), "enumerations": len(m.enums), "aliases": len(m.aliases),
        "flattened_properties": sum(len(m.flat_props(n)) for n in m.structs),
        "wrong_type_constructor_calls": dyn, "wrong_type_targets": len(targets),
    })
    ctx.assumptions = ["the documented type mapping as re-implemented in props/c04.py (Mapper); alias objects are compared after resolving their ForwardRefs"]


def replay(ctx: Ctx, path: str) -> int:
    run(ctx)
    return ctx.finish()
