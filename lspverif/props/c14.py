"""C14 — every union in the protocol can be parsed in each of its alternatives."""
from __future__ import annotations

import collections
import json
from typing import Any, Dict, List, Tuple

from hypothesis import strategies as st

from .. import runner, tvgen, valuecheck
from ..hyp import mini
from ..oracle import WellTyped
from ..runner import Ctx
from ..tvgen import GenCfg, Sites, TV, erase, to_json
from .c01 import exc_detail, exc_frame, exc_sig
from .c03 import body as c03_body

RULE = (
    "exhaustive over (union occurrence of lsp.json, alternative, use site): the occurrence is pinned to the alternative "
    "inside a generated valid root that contains it (declaring structure and every inheritor, message class for "
    "params/result, every use site and the alias object itself for alias-declared unions; LSPAny is exercised by JSON "
    "kind) and k shapes of the alternative are generated (minimal, maximal, random; arrays with elements of differing "
    "shape); oracle: structuring raises nothing and the result is well typed for an alternative the value is valid for "
    "(C03 predicate); string alternatives are additionally given every property name of their sibling object "
    "alternatives (and strings containing one). non-trivial = every pinned case; distinct = sha256(root, JSON)"
)

HETERO_PATTERNS = [("min", "max"), ("max", "min"), ("min", "rand", "max"), ("max", "rand", "min"), ("rand", "max", "min"), ("max", "max", "min"),
                   ("min", "max", "rand") * 12,            # long arrays: code that samples, batches or memoises over elements
                   ("max",) * 17 + ("min",) + ("max",) * 14]
SHAPES_QUICK = ["min", "max"] + ["rand"] * 6 + [f"hetero{i}" for i in range(len(HETERO_PATTERNS))] * 2
SHAPES_THOROUGH = ["min", "max"] + ["rand"] * 60 + [f"hetero{i}" for i in range(len(HETERO_PATTERNS))] * 8


def make_target(shape: str):
    def target(gen: tvgen.Gen, t: dict, locus: str, depth: int) -> TV:
        old_t = gen.cfg.target
        gen.cfg.target = None          # generate the pinned alternative itself
        if shape.startswith("hetero"):
            # an array alternative whose elements have prescribed, differing shapes (hooks tend to look at one element)
            tt = gen.m.resolve_alias(t)
            if tt["kind"] == "array":
                pattern = HETERO_PATTERNS[int(shape[6:]) % len(HETERO_PATTERNS)]
                items = []
                try:
                    for sh in pattern:
                        gen.shape = None if sh == "rand" else sh
                        items.append(gen.type(tt["element"], f"{locus}|[]", depth + 1, None))
                    return tvgen.L(items)
                finally:
                    gen.shape = None
                    gen.cfg.target = old_t
        if shape.startswith("solo:"):
            gen.solo = shape[5:]
            gen.shape = "min"
            try:
                return gen.type(t, locus, depth, None)
            finally:
                gen.shape = None
                gen.solo = None
                gen.cfg.target = old_t
        gen.shape = None if shape in ("rand",) or shape.startswith("hetero") else shape
        try:
            return gen.type(t, locus, depth, None)
        finally:
            gen.shape = None
            gen.cfg.target = old_t
    return target


def sibling_key_strings(model, t: dict, idx: int) -> List[str]:
    """for a string alternative of a union: the property names of the sibling object alternatives (and strings that
    contain them) - the values most likely to be mistaken for an object by a hand-written discriminator."""
    alt = model.resolve_alias(t["items"][idx])
    if not (alt["kind"] == "base" and alt["name"] in ("string", "DocumentUri", "URI", "RegExp")):
        return []
    names: List[str] = []

    def collect(x: dict, seen=()):
        x = model.resolve_alias(x)
        if x["kind"] == "reference" and x["name"] in model.structs:
            names.extend(p["name"] for p in model.flat_props(x["name"]))
        elif x["kind"] == "or":
            for i in x["items"]:
                collect(i)
        elif x["kind"] == "array":
            collect(x["element"])
        elif x["kind"] == "literal":
            names.extend(p["name"] for p in x["value"]["properties"])

    for j, it in enumerate(t["items"]):
        if j != idx:
            collect(it)
    names = sorted(set(names))
    return names + [f"a-{n}-b" for n in names]


def solo_shapes(model, t: dict, idx: int) -> List[str]:
    """for an object alternative: one shape per optional property (required properties plus exactly that one) -
    the shapes on which two alternatives with overlapping property names are most alike."""
    alt = model.resolve_alias(t["items"][idx])
    if alt["kind"] == "array":
        alt = model.resolve_alias(alt["element"])
    if alt["kind"] == "reference" and alt["name"] in model.structs:
        return ["solo:" + p["name"] for p in model.flat_props(alt["name"]) if p.get("optional")][:40]
    return []


def make_fixed_target(value: str):
    def target(gen: tvgen.Gen, t: dict, locus: str, depth: int) -> TV:
        return tvgen.P(value, ("base", "string"))
    return target


def _work(args) -> dict:
    items, seed, shapes = args
    sub = valuecheck.subject()
    ctx = Ctx("C14", "quick", seed)
    res: Dict[str, Any] = {"evaluations": 0, "hashes": set(), "samples": [], "pairs": collections.Counter(), "ok_pairs": set()}
    for (occ, idx, root, route) in items:
        rname = valuecheck.root_name(root)
        try:
            T = sub.root_type(root)
        except Exception:
            continue
        occ_t = sub.objects.type_at.get(occ)
        extra_shapes = [("key:" + s, s) for s in (sibling_key_strings(sub.model, occ_t, idx) if occ_t else [])]
        solos = solo_shapes(sub.model, occ_t, idx) if occ_t else []
        for shape in sorted(set(shapes)) + [e[0] for e in extra_shapes] + solos:
            n = shapes.count(shape) if not shape.startswith(("key:", "solo:")) else 1
            if shape.startswith("key:"):
                cfg = GenCfg(route=route, target=make_fixed_target(shape[4:]))
            else:
                cfg = GenCfg(route=route, target=make_target(shape))
            strat = tvgen.value_strategy(sub.objects, root, cfg)

            def one(x):
                tv0, _ = x
                # every pinned case is read in three member orders (as generated, reversed, sorted)
                for tv in (tv0, tvgen.reorder(tv0, "reversed"), tvgen.reorder(tv0, "sorted")):
                    one_order(tv)

            def one_order(tv):
                j = erase(tv)
                res["evaluations"] += 1
                res["pairs"][f"{occ}#{idx}"] += 1
                h = tvgen.canon_hash([rname, j])
                if h not in res["hashes"]:
                    res["hashes"].add(h)
                    if len(res["samples"]) < 1 and len(json.dumps(j)) < 300:
                        res["samples"].append({"occurrence": occ, "alternative": idx, "root": rname, "shape": shape, "json": j})
                case = {"root": list(root), "json": j, "tv": to_json(tv), "extra": None}
                try:
                    sub.conv.structure(j, T)
                except Exception as e:
                    fr = exc_frame(e)
                    ctx.finding((f"raises:{exc_sig(e)}", fr if fr != "?" else f"root:{rname}", f"{occ}#{idx}"),
                                f"root {rname}: {exc_detail(e)}", case)
                    return
                fs = c03_body(sub, root, tv)
                for f in fs:
                    ctx.finding((f[0], f[1], f"{occ}#{idx}"), f[3], case)
                if not fs:
                    res["ok_pairs"].add(f"{occ}#{idx}")

            mini(strat, n, (seed, "C14", occ, idx, rname, shape), one)
    res["violations"] = list(ctx.violations.values())
    res["known_hits"] = ctx.known_hits
    res["known_examples"] = ctx.known_examples
    res["pairs"] = dict(res["pairs"])
    return res


def run(ctx: Ctx) -> None:
    sub = valuecheck.subject()
    m = sub.model
    sites = Sites(sub.objects)
    occs = m.union_occurrences()
    shapes = SHAPES_QUICK if ctx.quick else SHAPES_THOROUGH
    items: List[tuple] = []
    unreachable = []
    declared_pairs = []
    for locus, t in occs:
        head = locus.split("|")[0]
        if head in ("alias:LSPAny",):
            continue  # payload alias: exercised below by JSON kind
        ss = sites.sites(locus, None if not ctx.quick else 4)
        if not ss:
            unreachable.append(locus)
            continue
        for i in range(len(t["items"])):
            declared_pairs.append(f"{locus}#{i}")
            for root, route in ss:
                items.append((locus, i, root, route + [f"{locus}|{i}"]))
    # deterministic order, interleaved shards
    shards = runner.chunks(items, runner.NPROC * 3)
    results = runner.pmap(_work, [(sh, ctx.seed, shapes) for sh in shards])
    evaluations = 0
    hashes = set()
    pairs: collections.Counter = collections.Counter()
    ok_pairs = set()
    samples = []
    for r in results:
        evaluations += r["evaluations"]
        hashes |= r["hashes"]
        pairs.update(r["pairs"])
        ok_pairs |= r["ok_pairs"]
        samples.extend(r["samples"])
        ctx.merge_worker(r)
    # LSPAny by JSON kind at the alias root and one use site
    anykinds = [{}, {"a": [1, {"b": None}]}, [], [1, "x", None], "s", -5, 2**31 - 1, 1.5, True, None]
    LSPAny = sub.types.LSPAny
    for v in anykinds:
        evaluations += 1
        try:
            got = sub.conv.structure(v, LSPAny)
            if json.dumps(got) != json.dumps(v):
                ctx.finding(("changed", "alias:LSPAny", "payload"), f"{v!r} became {got!r}", {"json": v})
        except Exception as e:
            ctx.finding((f"raises:{exc_sig(e)}", "alias:LSPAny", "payload"), exc_detail(e), {"json": v})
    never = sorted(set(declared_pairs) - set(pairs))
    if never:
        raise runner.HarnessError(f"generator never produced pinned pairs: {never[:5]}")
    ctx.coverage.update({
        "evaluations": evaluations, "distinct_nontrivial": len(hashes), "rule": RULE, "samples": samples[:6],
        "exhaustive": True,
        "union_occurrences_declared": len(occs),
        "occurrence_alternative_pairs": len(declared_pairs),
        "pairs_with_a_clean_parse_somewhere": len(ok_pairs & set(declared_pairs)),
        "use_sites_total": len(items),
        "shapes_per_site": len(shapes),
        "occurrences_without_typed_surface": unreachable,
        "note": "partialResult/errorData/registrationOptions facets are not represented by any type of lsprotocol.types; their unions cannot be placed",
    })
    ctx.assumptions = ["C03's well-typedness predicate; validity (non-strict) per refmodel", "exhaustive over (occurrence, alternative, use site); shapes are sampled"]


def replay(ctx: Ctx, path: str) -> int:
    sub = valuecheck.subject()
    with open(path) as f:
        rp = json.load(f)
    case = rp["case"]
    tv = tvgen.from_json(case["tv"])
    root = tuple(case["root"])
    T = sub.root_type(root)
    try:
        sub.conv.structure(erase(tv), T)
    except Exception as e:
        print(f"VIOLATION property=C14 replay={path}\n  {exc_detail(e)}")
        return 1
    fs = c03_body(sub, root, tv)
    if fs:
        print(f"VIOLATION property=C14 replay={path}\n  {fs[0]}")
        return 1
    print("[C14] replay: no longer reproduces")
    return 0
