"""C17 — every generated test vector is labelled with its true metamodel validity."""
from __future__ import annotations

import collections
import copy
import hashlib
import json
import os
import re
import shutil
from typing import Any, Dict, List, Tuple

from hypothesis import strategies as st

from .. import gen, runner, valuecheck
from ..refmodel import Model, load_doc
from ..runner import Ctx, HarnessError
from ..subject import repo_path

RULE = (
    "exhaustive over every file the testdata plugin writes for generator/lsp.json (real CLI run from the working tree "
    "into a scratch directory): name must be <MessageClass>-<True|False>-<sha256(content)>.json; label == verdict of "
    "the independent strict validator of refmodel.py for that message class (declared properties only, required "
    "present, integer ranges, closed enumerations, literal values, int32-or-string id); every message class has >=1 "
    "True vector; every True vector is accepted by the Python converter; plus a history of generate() calls inside one "
    "process over Hypothesis-evolved variants of a reduced model (shared structure names, different properties), each "
    "batch judged against its own model. non-trivial = every vector; distinct = file name (content hash)"
)

NAME_RE = re.compile(r"^(\w+)-(True|False)-([0-9a-f]{64})\.json$")

_STATE: Dict[str, Any] = {}


def class_table(model: Model) -> Dict[str, Tuple[str, dict]]:
    out = {}
    for kind, msg in model.messages():
        req, resp = model.message_class_names(kind, msg)
        out[req] = (kind, msg)
        if resp:
            out[resp] = ("response", msg)
    return out


def judge_vectors(model: Model, table, vectors: List[Tuple[str, str]], sub=None) -> dict:
    res = {"evaluations": 0, "findings": [], "true_by_class": collections.Counter(), "labels": collections.Counter(), "samples": []}
    for name, content in vectors:
        res["evaluations"] += 1
        m = NAME_RE.match(name)
        if not m:
            res["findings"].append(("bad-file-name", name, "-", "name is not <Class>-<True|False>-<sha256>.json", {"file": name}))
            continue
        cls, label, h = m.group(1), m.group(2) == "True", m.group(3)
        if hashlib.sha256(content.encode("utf-8")).hexdigest() != h:
            res["findings"].append(("hash-mismatch", cls, "-", f"{name}: hash in the name is not sha256 of the content", {"file": name}))
        if cls not in table:
            res["findings"].append(("unknown-class", cls, "-", f"{name}: no message class of that name", {"file": name}))
            continue
        kind, msg = table[cls]
        try:
            j = json.loads(content)
        except Exception as e:
            res["findings"].append(("not-json", cls, "-", f"{name}: {e}", {"file": name}))
            continue
        fn = {"request": model.valid_request, "notification": model.valid_notification, "response": model.valid_response}[kind]
        verdict = fn(j, msg, True)
        res["labels"][f"{label}"] += 1
        if label:
            res["true_by_class"][cls] += 1
        if verdict != label:
            res["findings"].append(("label-mismatch", cls, f"labelled-{label}", f"{name}: labelled {label}, strict validity is {verdict}: {content[:200]!r}",
                                    {"file": name, "class": cls, "label": label, "json": j}))
        elif label and kind == "response" and isinstance(j, dict) and (("result" in j) == ("error" in j)):
            # the base protocol (JSON-RPC 2.0, section 5; LSP ResponseMessage) wants exactly one of result and error in a
            # response. valid_response() judges the rest of the message; this is judged on its own, under a context of its own
            res["findings"].append(("label-mismatch", cls, "labelled-True:result-xor-error",
                                    f"{name}: labelled True with {'both result and error' if 'result' in j else 'neither result nor error'}: {content[:160]!r}",
                                    {"file": name, "class": cls, "label": label, "json": j}))
        if label and sub is not None:
            try:
                sub.conv.structure(j, getattr(sub.types, cls))
            except Exception as e:
                res["findings"].append(("true-vector-rejected", cls, "converter", f"{name}: {type(e).__name__}: {str(e)[:150]}",
                                        {"file": name, "class": cls, "json": j}))
        if len(res["samples"]) < 1 and len(content) < 300:
            res["samples"].append({"file": name, "json": j})
    return res


def _work(names: List[str]) -> dict:
    d = _STATE["dir"]
    model = _STATE["model"]
    table = _STATE["table"]
    sub = valuecheck.subject()
    vectors = []
    for n in names:
        with open(os.path.join(d, n), encoding="utf-8") as f:
            vectors.append((n, f.read()))
    return judge_vectors(model, table, vectors, sub)


def in_process_history(ctx: Ctx, base: dict) -> dict:
    """a history of generate() calls in ONE process over models that share structure names but differ in their
    properties (Hypothesis-evolved variants of a reduced closed sub-model); every batch is judged against its own model.
    Runs in a forked child so that the plugin's module state starts fresh and cannot leak into this process."""
    from .. import evolve
    from ..hyp import mini
    from .c16 import submodel
    from .c19 import in_child

    small = submodel(base, ["$/logTrace", "$/setTrace", "textDocument/hover", "window/showMessageRequest", "workspace/symbol"])
    variants = [small]
    drawn = []
    mini(evolve.evolved(small, 1, 3, allow={"E2", "E7", "E4"}), 4, (ctx.seed, "C17", "history"), lambda x: drawn.append(x))
    variants += [d for d, _ in drawn[1:]]
    rounds = (variants * 3)[: 9 if ctx.quick else 24]
    # label-only variants (labels are judged against the model itself; the Python acceptance clause is not applied in this
    # history): enumerations at the edges of what the metamodel allows - members at the bounds of the base type, members
    # equal to the values a generator is likely to use as its "not a member" probe, closed and open
    from ..refmodel import INT_MAX, INT_MIN, UINT_MAX
    edge_variants = []
    enums_small = [e["name"] for e in small["enumerations"]]
    for k, ename in enumerate(enums_small):
        for flavour in range(4):
            d = copy.deepcopy(small)
            e = [x for x in d["enumerations"] if x["name"] == ename][0]
            base_t = e["type"]["name"]
            taken = {v["value"] for v in e["values"]}
            if base_t == "string":
                extra = [["testCustomValue", "custom", ""], ["testCustomValue"], [e["values"][0]["value"] + "Custom", "x" * 40], ["testCustomValue", "12345"]][flavour]
            else:
                hi, lo = (INT_MAX, INT_MIN) if base_t == "integer" else (UINT_MAX, 0)
                extra = [[12345, hi], [hi, lo], [12345, 12346, hi - 1], [12345, 12346]][flavour]
            for j, v in enumerate(extra):
                if v not in taken:
                    e["values"].append({"name": f"VfEdge{flavour}{j}", "value": v})
            was_open = bool(e.get("supportsCustomValues"))
            now_open = {0: not was_open, 1: was_open, 2: True, 3: False}[flavour]
            e.pop("supportsCustomValues", None)
            if now_open:
                e["supportsCustomValues"] = True
            if evolve.schema_valid(d):
                edge_variants.append(d)
    # ... and general unions whose alternatives overlap (label-only as well: the Python package would need a hand-written
    # hook for them): a literal-discriminated structure next to an open object, next to a structure that declares the same
    # property as a plain string, next to a map - a value that is wrong for one alternative may be right for its sibling
    def union_variant(sibling: dict, extra_structs: list) -> dict:
        d = copy.deepcopy(small)
        S_ = {"kind": "base", "name": "string"}
        d["structures"] += [{"name": "VfShellTask", "properties": [{"name": "kind", "type": {"kind": "stringLiteral", "value": "shell"}},
                                                                     {"name": "command", "type": S_}, {"name": "args", "type": {"kind": "array", "element": S_}, "optional": True}]},
                            {"name": "VfRunTaskParams", "properties": [{"name": "task", "type": {"kind": "or", "items": [{"kind": "reference", "name": "VfShellTask"}, sibling]}}]}] + extra_structs
        d["requests"].append({"method": "vf/runTask", "messageDirection": "clientToServer", "params": {"kind": "reference", "name": "VfRunTaskParams"},
                              "result": {"kind": "base", "name": "null"}})
        return d
    S__ = {"kind": "base", "name": "string"}
    union_variants = [
        union_variant({"kind": "reference", "name": "VfExtTask"}, [{"name": "VfExtTask", "properties": []}]),
        union_variant({"kind": "reference", "name": "VfLooseTask"}, [{"name": "VfLooseTask", "properties": [{"name": "kind", "type": S__}, {"name": "command", "type": S__},
                                                                                                         {"name": "args", "type": {"kind": "array", "element": S__}, "optional": True}]}]),
        union_variant({"kind": "map", "key": S__, "value": S__}, []),
        union_variant({"kind": "reference", "name": "LSPObject"}, []),
    ]
    union_variants = [d for d in union_variants if evolve.schema_valid(d)]
    pick: List[int] = []
    mini(st.lists(st.integers(0, max(0, len(edge_variants) - 1)), min_size=6, max_size=6), 2, (ctx.seed, "C17", "edges"), lambda xs: pick.append(xs))
    chosen = edge_variants if not ctx.quick else [edge_variants[i] for i in dict.fromkeys(pick[-1])] if edge_variants else []
    rounds = rounds + chosen + (union_variants if not ctx.quick else union_variants[(ctx.seed % 2)::2])

    def child(rounds_):
        import gc
        import logging
        from .. import evosubject
        from generator.plugins.testdata import testdata_generator as tg
        logger = logging.getLogger("lspverif-null")
        logger.disabled = True
        out = {"vectors": 0, "findings": [], "rounds": 0}
        for i, d in enumerate(rounds_):
            spec = evosubject.load_model(d)
            vectors = tg.generate(spec, logger)
            model = Model(d)
            res = judge_vectors(model, class_table(model), list(vectors.items()), None)
            out["vectors"] += res["evaluations"]
            out["rounds"] += 1
            # (result together with error is a matter of every run alike - the main leg reports it; this leg looks for what differs
            #  between rounds)
            for f in [g for g in res["findings"] if not str(g[2]).endswith("result-xor-error")][:5]:
                out["findings"].append([f[0], f[1], f"in-process round {i + 1}", f[3][:300]])
            del spec, vectors
            gc.collect()
        return out

    res = in_child(child, rounds, timeout=900)
    if res is None:
        return {"vectors": 0, "rounds": 0, "note": "timed out (inconclusive)"}
    for f in res["findings"]:
        ctx.finding((f[0], f[1], "in-process-history"), f"{f[2]}: {f[3]}", {"round": f[2]})
    return {"vectors": res["vectors"], "rounds": res["rounds"], "distinct_models": len(variants) + len(chosen), "enumeration_edge_variants": len(chosen)}


def run(ctx: Ctx) -> None:
    doc = load_doc(repo_path("generator", "lsp.json"))
    model = Model(doc)
    table = class_table(model)
    valuecheck.subject()
    d = gen.scratch()
    try:
        r = gen.run_generator("testdata", d, hashseed=ctx.seed % 1000, timeout=1200)
        if r.returncode != 0:
            ctx.finding(("plugin-failed", "testdata", "committed-model"), (r.stderr or r.stdout)[-400:], {})
            names = []
        else:
            names = sorted(os.listdir(d))
        stray = [n for n in names if not n.endswith(".json") and n != "_tests"]
        for n in stray:
            ctx.finding(("stray-file", n, "-"), "plugin wrote a file that is not a .json vector", {"file": n})
        names = [n for n in names if n.endswith(".json")]
        _STATE.update({"dir": d, "model": model, "table": table})
        results = runner.pmap(_work, runner.chunks(names, runner.NPROC * 2)) if names else []
    finally:
        shutil.rmtree(d, ignore_errors=True)
    evaluations = 0
    true_by_class: collections.Counter = collections.Counter()
    labels: collections.Counter = collections.Counter()
    samples = []
    for res in results:
        evaluations += res["evaluations"]
        true_by_class.update(res["true_by_class"])
        labels.update(res["labels"])
        samples.extend(res["samples"])
        for f in res["findings"]:
            ctx.finding((f[0], f[1], f[2]), f[3], f[4])
    for cls in table:
        if true_by_class.get(cls, 0) == 0 and names:
            ctx.finding(("no-true-vector", cls, "-"), "message class receives no True vector", {"class": cls})
    inproc = in_process_history(ctx, doc)
    evaluations += inproc["vectors"]
    if names and len(names) < 1000:
        raise HarnessError(f"only {len(names)} vectors found")
    ctx.coverage.update({
        "evaluations": max(evaluations, 1), "distinct_nontrivial": len(names), "rule": RULE, "samples": samples[:4],
        "exhaustive": True, "vectors": len(names), "labels": dict(labels), "message_classes": len(table),
        "classes_with_true_vector": sum(1 for c in table if true_by_class.get(c, 0) > 0),
        "in_process_history": inproc,
    })
    ctx.assumptions = [
        "strict reading: an empty structure/literal is an open object (the LSP convention for extension points, which the plugin applies to named empty structures as well); undeclared params may be absent or null; result together with error (or neither) in a True response vector is judged separately (known finding KF-testdata-result-and-error)",
        "enumerations are closed per the metamodel (CompletionItemKind closed here: the customisation is python-only)",
    ]


def replay(ctx: Ctx, path: str) -> int:
    with open(path) as f:
        rp = json.load(f)
    c = rp["case"]
    if "json" not in c:
        run(ctx)
        return ctx.finish()
    doc = load_doc(repo_path("generator", "lsp.json"))
    model = Model(doc)
    kind, msg = class_table(model)[c["class"]]
    fn = {"request": model.valid_request, "notification": model.valid_notification, "response": model.valid_response}[kind]
    print(f"[C17] replay: {c['file']}: strict validity {fn(c['json'], msg, True)}, label {c.get('label')}; re-run ./check C17 for the current plugin output")
    return 0
