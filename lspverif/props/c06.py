"""C06 — the generator is correct on every schema-valid evolution of the metamodel."""
from __future__ import annotations

import collections
import copy
import json
import logging
import os
import shutil
import traceback
from typing import Any, Dict, List, Optional, Tuple

from hypothesis import strategies as st

from .. import evolve, evosubject, gen, runner, tvgen, valuecheck
from ..cscheck import CsOracle
from ..hyp import mini
from ..refmodel import Model, load_doc
from ..runner import Ctx, HarnessError, derive_seed
from ..rustcheck import RustOracle
from ..subject import repo_path
from . import c01, c02, c03, c04, c08, c09, c10, c17

RULE = (
    "programs = metamodels drawn by Hypothesis as edit sequences (0-6 edits: new structures with extends/mixins, new "
    "properties over the type grammar incl. literals, tuples, maps, null-admitting unions and Python-keyword names, "
    "closed enumerations and enum values, requests/notifications with or without typeName, proposed/deprecated/since "
    "marks, removal of optional properties) applied to generator/lsp.json and re-validated against the schema; each is "
    "given to the four plugins (in-process exactly as __main__ does, a sample through the CLI); oracles: no exception; "
    "python -> module imports, C04 and C09 enumerations in full, C10/C01/C02/C03 on the touched roots and a sample of "
    "others; rust -> rustfmt accepts the text and the C07 oracle holds for the evolved model; dotnet -> C08 oracle; "
    "testdata -> C17 (labels vs strict validator of the evolved model, every message class has a True vector, True "
    "vectors accepted by the evolved Python package). non-trivial = model with >=1 structural edit; distinct = sha256 of the edit list"
)


class Proxy:
    """forwards findings of a re-used checker into the C06 collector with a prefix."""

    def __init__(self, ctx: Ctx, prefix: str, edits: List[dict]):
        self.ctx, self.prefix, self.edits = ctx, prefix, edits
        self.coverage: Dict[str, Any] = {}
        self.assumptions: List[str] = []
        self.quick, self.tier, self.seed = True, "quick", ctx.seed
        self.violations = ctx.violations

    def finding(self, sig, detail, case) -> None:
        self.ctx.finding((f"{self.prefix}:{sig[0]}", sig[1], sig[2]), detail, {"edits": self.edits, "case": case})

    def merge_worker(self, r: dict) -> None:
        for v in r.get("violations", []):
            s = v["signature"]
            self.finding((s[0], s[1], s[2]), v["detail"], v.get("case"))


def edit_summary(edits: List[dict]) -> str:
    return ",".join(sorted({e["edit"].split("-")[0] for e in edits})) or "identity"


def crash_sig(e: BaseException) -> str:
    tb = traceback.extract_tb(e.__traceback__)
    fn = "?"
    for fr in tb:
        if "/generator/" in fr.filename:
            fn = f"{os.path.basename(fr.filename)}:{fr.name}"
    return f"{type(e).__name__}@{fn}"


def touched_roots(base_model: Model, model: Model, edits: List[dict]) -> List[tuple]:
    roots: List[tuple] = []
    touched_structs = set()
    for e in edits:
        if e["edit"] == "E1-new-structure":
            touched_structs.add(e["name"])
        elif e["edit"] == "E8-override-chain":
            touched_structs.update([e["mid"], e["leaf"]])
        elif e["edit"] in ("E1-matrix", "E1-same-name", "E1-diamond"):
            touched_structs.update(e["structures"])
        elif e["edit"] in ("E2-new-property", "E7-remove-optional", "E7-new-parent"):
            touched_structs.add(e["structure"])
        elif e["edit"].startswith("E5"):
            kind = "request" if e["edit"].endswith("request") else "notification"
            roots.append(("msg", kind, e["method"]))
            if kind == "request":
                roots.append(("msg", "response", e["method"]))
    # inheritors of touched structures
    for s in model.structs:
        if touched_structs & set([s] + model.ancestors(s)):
            roots.append(("struct", s))
    # users (one level) of touched structures
    for s in model.structs:
        for p in model.flat_props(s):
            for _, t in model.iter_subtypes("x", p["type"]):
                if t["kind"] == "reference" and t["name"] in touched_structs and ("struct", s) not in roots:
                    roots.append(("struct", s))
    return roots[:80]


LISTS = ("requests", "notifications", "structures", "enumerations", "typeAliases")


def doc_delta(base: dict, doc: dict) -> dict:
    """the evolved document as a delta against the committed one (replay files stay small)."""
    out: Dict[str, Any] = {}
    for k in LISTS:
        key = "method" if k in ("requests", "notifications") else "name"
        old = {x[key]: x for x in base[k]}
        new = {x[key]: x for x in doc[k]}
        out[k] = {"set": [x for x in doc[k] if old.get(x[key]) != x], "removed": [n for n in old if n not in new], "order": None}
    rebuilt = apply_delta(base, out)
    for k in LISTS:
        key = "method" if k in ("requests", "notifications") else "name"
        if [x[key] for x in rebuilt[k]] != [x[key] for x in doc[k]]:
            out[k]["order"] = [x[key] for x in doc[k]]   # declarations were moved, not only appended
    return out


def apply_delta(base: dict, delta: dict) -> dict:
    doc = copy.deepcopy(base)
    for k in LISTS:
        key = "method" if k in ("requests", "notifications") else "name"
        d = delta[k]
        items = [x for x in doc[k] if x[key] not in d["removed"]]
        index = {x[key]: i for i, x in enumerate(items)}
        for x in d["set"]:
            if x[key] in index:
                items[index[x[key]]] = x
            else:
                items.append(x)
        if d.get("order"):
            by = {x[key]: x for x in items}
            items = [by[n] for n in d["order"] if n in by] + [x for x in items if x[key] not in d["order"]]
        doc[k] = items
    return doc


class DeltaCtx:
    """attaches the model delta to every finding of one model."""

    def __init__(self, ctx: Ctx, delta: dict):
        self._ctx, self._delta = ctx, delta
        self.seed, self.known, self.violations = ctx.seed, ctx.known, ctx.violations

    def finding(self, sig, detail, case) -> None:
        if isinstance(case, dict):
            case = dict(case, model_delta=self._delta)
        self._ctx.finding(sig, detail, case)


def check_model(ctx: Ctx, base: dict, doc: dict, edits: List[dict], seed: int, budget: Dict[str, int], cli_sample: bool) -> Dict[str, Any]:
    ctx = DeltaCtx(ctx, doc_delta(base, doc))  # type: ignore
    stats: Dict[str, Any] = collections.Counter()
    summ = edit_summary(edits)
    model = Model(doc)
    base_model = Model(base)

    def crash(plugin: str, e: BaseException) -> None:
        ctx.finding((f"plugin-crash:{crash_sig(e)}", plugin, "evolved-model"), f"{plugin} plugin: {type(e).__name__}: {str(e)[:200]}", {"edits": edits})

    # ---- python -------------------------------------------------------------------------------
    sub = None
    evo = None
    try:
        evo = evosubject.EvolvedPython(doc)
        evo.__enter__()
        sub = evo.subject
        stats["python_ok"] += 1
    except Exception as e:
        if "/generator/" in "".join(f.filename for f in traceback.extract_tb(e.__traceback__)) and sub is None and not os.path.exists(os.path.join(evo.dir, evo.pkg) if evo else "/nonexistent"):
            crash("python", e)
        else:
            ctx.finding((f"python-import:{type(e).__name__}", "python", "evolved-model"), f"generated module does not import: {str(e)[:200]}", {"edits": edits})
        if evo is not None:
            evo.__exit__(None, None, None)
        evo = None
    try:
        if sub is not None:
            c04.run(Proxy(ctx, "C04", edits), sub, dynamic=False)
            c09.run(Proxy(ctx, "C09", edits), sub)
            stats["c04_c09_runs"] += 1
            roots = touched_roots(base_model, model, edits)
            allroots = [r for r in valuecheck.all_roots(model) if r[0] in ("struct", "msg")]
            extra: List[tuple] = []
            picks: List[List[int]] = []
            mini(st.lists(st.integers(0, len(allroots) - 1), min_size=budget["sample_roots"], max_size=budget["sample_roots"], unique=True),
                 4, (seed, "C06roots"), lambda xs: picks.append(xs))
            extra.extend(allroots[i] for i in picks[-1])   # (the first example is the simplest one: the same root over and over)
            stats["sampled_other_roots"] += len(set(picks[-1]))
            for root in roots + extra:
                for name, body, cfg in (("C01", c01.body, None), ("C02", c02.body, tvgen.GenCfg(decimal_ints=False)), ("C03", c03.body, None)):
                    def mk(name, body):
                        def f(x):
                            tv, _ = x
                            stats["value_cases"] += 1
                            for fd in body(sub, root, tv):
                                ctx.finding((f"{name}:{fd[0]}", fd[1], fd[2]), fd[3],
                                            {"edits": edits, "root": list(root), "json": tvgen.erase(tv)})
                        return f
                    mini(tvgen.value_strategy(sub.objects, root, cfg), budget["value_cases"], (seed, "C06", name, valuecheck.root_name(root)), mk(name, body))
            # C10 on the classes of the touched roots
            keys = [r for r in roots if r[0] in ("struct", "msg")][:60]
            keys += [k for k in c10.class_keys(sub) if k[0] == "and"]   # every 'and' class of the evolved model
            if keys:
                r10 = c10.check_keys(sub, keys, seed, budget["c10_k"])
                stats["c10_cases"] += r10["evaluations"]
                Proxy(ctx, "C10", edits).merge_worker(r10)
    finally:
        pass
    # ---- rust ---------------------------------------------------------------------------------
    d = gen.scratch("lspverif-c06-")
    try:
        try:
            evosubject.run_plugin_inprocess("rust", doc, os.path.join(d, "rust"))
            f = os.path.join(d, "rust", "lsprotocol", "src", "lib.rs")
            ok, err = gen.rustfmt_ok(f)
            stats["rust_ok"] += 1
            if not ok:
                first = [ln for ln in err.splitlines() if ln.startswith("error")][:1]
                ctx.finding(("rust-does-not-parse", "rust", (first[0][:60] if first else "rustfmt")), f"rustfmt rejects the generated source: {err[:300]}", {"edits": edits})
            else:
                o = RustOracle(doc, open(f, encoding="utf-8").read())
                for fd in o.run():
                    ctx.finding((f"C07:{fd[0]}", fd[1], "evolved"), fd[3], {"edits": edits})
                stats["c07_evaluations"] += o.evaluations
        except HarnessError:
            raise
        except Exception as e:
            crash("rust", e)
        # ---- dotnet ---------------------------------------------------------------------------
        if budget["dotnet"]:
            try:
                evosubject.run_plugin_inprocess("dotnet", doc, os.path.join(d, "dotnet"))
                files = c08.read_tree(os.path.join(d, "dotnet", "lsprotocol"))
                o = CsOracle(doc, files, c08.custom_names())
                for fd in o.run():
                    ctx.finding((f"C08:{fd[0]}", fd[1], "evolved"), fd[3], {"edits": edits})
                stats["dotnet_ok"] += 1
                stats["c08_evaluations"] += o.evaluations
            except HarnessError:
                raise
            except Exception as e:
                crash("dotnet", e)
        # ---- testdata -------------------------------------------------------------------------
        if budget["testdata"]:
            try:
                from generator.plugins.testdata import testdata_generator as tg
                spec = evosubject.load_model(doc)
                logger = logging.getLogger("lspverif-null")
                logger.disabled = True
                vectors = tg.generate(spec, logger)
                stats["testdata_ok"] += 1
                table = c17.class_table(model)
                res = c17.judge_vectors(model, table, list(vectors.items()), sub)
                stats["vectors"] += res["evaluations"]
                for fd in res["findings"]:
                    ctx.finding((f"C17:{fd[0]}", fd[1], fd[2]), fd[3], {"edits": edits, "case": fd[4]})
                for cls in table:
                    if res["true_by_class"].get(cls, 0) == 0:
                        ctx.finding(("C17:no-true-vector", cls, "evolved"), "message class receives no True vector", {"edits": edits})
            except HarnessError:
                raise
            except Exception as e:
                crash("testdata", e)
        # ---- several model files -----------------------------------------------------------------
        # merge is concatenation (C18), so cutting every declaration list of the document at any index into a first
        # and a second file must not change what a plugin emits
        if budget.get("split", True):
            cuts: List[List[int]] = []
            lists = ("requests", "notifications", "structures", "enumerations", "typeAliases")
            # (Hypothesis starts with the simplest example, the same everywhere: take a later one)
            mini(st.tuples(*[st.one_of(st.just(-1), st.just(0), st.integers(0, len(doc[k]))) for k in lists]), 4, (seed, "C06split", summ),
                 lambda xs: cuts.append(list(xs)))
            cut = {k: (len(base.get(k, [])) if c == -1 else c) for k, c in zip(lists, cuts[-1])}   # -1: the new declarations go to the second file
            cut = {k: min(c, len(doc[k])) for k, c in cut.items()}
            first = {**{k: v for k, v in doc.items() if k not in lists}, **{k: doc[k][:cut[k]] for k in lists}}
            second = {**{k: v for k, v in doc.items() if k not in lists}, **{k: doc[k][cut[k]:] for k in lists}}
            for plugin, owned in (("python", os.path.join("lsprotocol", "types.py")), ("rust", os.path.join("lsprotocol", "src", "lib.rs"))):
                outs = []
                try:
                    for tag, docs in (("one", [doc]), ("two", [first, second])):
                        o = os.path.join(d, f"split-{plugin}-{tag}")
                        evosubject.run_plugin_inprocess(plugin, docs, o)
                        with open(os.path.join(o, owned), encoding="utf-8") as fh:
                            outs.append(fh.read())
                except HarnessError:
                    raise
                except Exception as e:
                    if len(outs) == 1:   # the single-file generation works, the two-file one does not
                        ctx.finding((f"split:plugin-crash:{crash_sig(e)}", plugin, "two-files"),
                                    f"{plugin} plugin fails on the document cut into two files at {cut}: {type(e).__name__}: {str(e)[:160]}", {"edits": edits, "cut": cut})
                    continue
                stats["split_runs"] += 1
                if outs[0] != outs[1]:
                    import difflib
                    dl = [ln for ln in difflib.unified_diff(outs[0].splitlines(), outs[1].splitlines(), lineterm="", n=0) if not ln.startswith(("---", "+++", "@@"))]
                    ctx.finding(("split:output-differs", plugin, "two-files"),
                                f"{plugin} output for the document cut into two files at {cut} differs from the one-file output: {dl[:4]}", {"edits": edits, "cut": cut})
        # ---- CLI sample ------------------------------------------------------------------------
        if cli_sample:
            mpath = os.path.join(d, "evolved.json")
            with open(mpath, "w") as fh:
                json.dump(doc, fh)
            for plugin in ("python", "rust"):
                r = gen.run_generator(plugin, os.path.join(d, "cli-" + plugin), models=[mpath], hashseed=seed % 1000)
                stats["cli_runs"] += 1
                if r.returncode != 0:
                    last = (r.stderr or r.stdout).strip().splitlines()[-1:] or [""]
                    ctx.finding((f"plugin-crash:cli", plugin, last[0][:60]), f"CLI exit status {r.returncode}: {last[0][:200]}", {"edits": edits})
    finally:
        shutil.rmtree(d, ignore_errors=True)
        if evo is not None:
            evo.__exit__(None, None, None)
    return dict(stats)


def _work(args) -> dict:
    idx, seed, n_models, budget = args
    base = load_doc(repo_path("generator", "lsp.json"))
    ctx = Ctx("C06", "quick", seed)
    out: Dict[str, Any] = {"stats": collections.Counter(), "models": [], "hashes": set()}
    cases: List[Tuple[dict, List[dict]]] = []
    if idx == 0:
        cases.append((copy.deepcopy(base), []))  # the identity edit
    drawn: List[Tuple[dict, List[dict]]] = []
    # generation floor: shard i always exercises production FOCI[i] (every production in every run of 16 shards)
    F = evolve.Evolver.FOCI
    focus = "+".join(F[i] for i in range(idx % runner.NPROC, len(F), runner.NPROC))
    mini(evolve.evolved(base, 0, 5, focus=focus), n_models + 1, (seed, "C06", "model", idx), lambda x: drawn.append(x))
    # Hypothesis starts with the simplest example - no free edit, every choice the first one, the same for every seed: it is
    # kept in shard 0 only (next to the identity edit); every shard takes the later, seed-dependent examples
    cases.extend(drawn if idx == 0 else drawn[1:])
    out["stats"]["focus:" + focus] += len(cases)
    for k, (doc, edits) in enumerate(cases):
        st_ = check_model(ctx, base, doc, edits, derive_seed(seed, idx, k), budget, cli_sample=(k == 0 and idx % 4 == 0))
        out["stats"].update(st_)
        out["stats"]["models"] += 1
        for e in edits:
            out["stats"]["edit:" + e["edit"]] += 1
            if "type" in e and isinstance(e.get("type"), dict):
                out["stats"]["type-production:" + e["type"]["kind"]] += 1
        if evolve.structural(edits):
            out["hashes"].add(tvgen.canon_hash(edits))
        if len(out["models"]) < 2:
            out["models"].append({"edits": edits[:4]})
    out["violations"] = list(ctx.violations.values())
    out["known_hits"] = ctx.known_hits
    out["known_examples"] = ctx.known_examples
    out["stats"] = dict(out["stats"])
    return out


def run(ctx: Ctx) -> None:
    valuecheck.subject()  # import the committed package once (fork-shared)
    if ctx.quick:
        workers, n_models = runner.NPROC, 1
        budget = {"value_cases": 8, "sample_roots": 10, "c10_k": 2, "dotnet": True, "testdata": True}
    else:
        workers, n_models = runner.NPROC, 20
        budget = {"value_cases": 40, "sample_roots": 40, "c10_k": 10, "dotnet": True, "testdata": True}
    results = runner.pmap(_work, [(i, ctx.seed, n_models, budget) for i in range(workers)])
    stats: collections.Counter = collections.Counter()
    hashes = set()
    samples = []
    for r in results:
        stats.update(r["stats"])
        hashes |= r["hashes"]
        samples.extend(r["models"])
        ctx.merge_worker(r)
    evaluations = stats["models"] * 4
    ctx.coverage.update({
        "evaluations": evaluations, "distinct_nontrivial": len(hashes), "rule": RULE, "samples": samples[:5],
        "programs": stats["models"], "plugin_runs": evaluations, "stats": dict(stats), "exhaustive": False,
    })
    ctx.assumptions = [
        "evolution grammar of DESIGN 2.4: no general unions (they need a hand-written hook), closed enumerations only, "
        "references to aliases that do not resolve to a general union, fresh letter-only lowerCamel names",
        "rustfmt --edition 2021 accepting the text stands for 'the Rust source parses'",
    ]
    if len(hashes) < 2:
        raise HarnessError("fewer than two structurally evolved models were generated")


def replay(ctx: Ctx, path: str) -> int:
    """rebuild the evolved model from the saved delta and run the whole per-model pipeline on it (no Hypothesis)."""
    with open(path) as f:
        rp = json.load(f)
    case = rp["case"]
    delta = case.get("model_delta")
    if delta is None:
        print("[C06] replay file carries no model delta; re-running the check")
        run(ctx)
        return ctx.finish()
    valuecheck.subject()
    base = load_doc(repo_path("generator", "lsp.json"))
    doc = apply_delta(base, delta)
    if not evolve.schema_valid(doc):
        raise HarnessError("replayed model is not schema-valid")
    budget = {"value_cases": 40, "sample_roots": 10, "c10_k": 5, "dotnet": True, "testdata": True}
    stats = check_model(ctx, base, doc, case.get("edits") or [], rp.get("seed", 1), budget, cli_sample=False)
    ctx.coverage.update({"evaluations": 4, "distinct_nontrivial": 2, "rule": "replay of one evolved model", "samples": [{"edits": (case.get("edits") or [])[:3]}], "stats": stats})
    want = tuple(rp["signature"])
    hit = want in ctx.violations
    rc = ctx.finish()
    print(f"[C06] replay: recorded signature {'reproduces' if hit else 'does not reproduce'}")
    return rc
