"""C16 — generation is a deterministic function of the model files alone."""
from __future__ import annotations

import collections
import copy
import hashlib
import json
import os
import shutil
from typing import Any, Dict, List, Optional, Tuple

import hypothesis
from hypothesis import HealthCheck, Phase, settings, strategies as st
from hypothesis.stateful import RuleBasedStateMachine, initialize, invariant, precondition, rule, run_state_machine_as_test

from .. import evolve, gen, runner
from ..hyp import mini
from ..refmodel import Model, load_doc
from ..runner import Ctx, HarnessError, derive_seed
from ..subject import repo_path

RULE = (
    "stateful (Hypothesis RuleBasedStateMachine) per plugin over one scratch output directory: rules run(model list, "
    "PYTHONHASHSEED, path spelling: absolute from the repository / absolute from an unrelated cwd / all relative / no tools on PATH / another day, user and machine / python -O) "
    "= real `python -m generator` sub-process, plant_stale (a file matching the plugin's ownership "
    "pattern, or an overwritten generated file), rerun; invariant after every run: {relative path -> sha256} of the "
    "plugin-owned files equals the reference for that (plugin, model list), computed once in a fresh directory, in "
    "another process, under a different hash seed; plus one in-process history per plugin (the plugin entry point called "
    "repeatedly inside one process, the same model before and after other models). Model pool: committed model, Hypothesis-evolved models, a two-file "
    "list (base + extension), reduced closed sub-models for the slow plugins. non-trivial history = a run after a "
    "different model, after plant_stale, or under a hash seed different from the reference's; distinct = the history"
)

PLUGINS = ["python", "rust", "dotnet", "testdata"]


def owned_digest(plugin: str, out: str) -> Dict[str, str]:
    files: List[str] = []
    if plugin == "python":
        files = [os.path.join("lsprotocol", "types.py")]
    elif plugin == "rust":
        files = [os.path.join("lsprotocol", "src", "lib.rs")]
        if os.path.exists(os.path.join(out, "_tests", "src", "main.rs")):
            files.append(os.path.join("_tests", "src", "main.rs"))   # the region of the test harness that the plugin rewrites
    elif plugin == "dotnet":
        d = os.path.join(out, "lsprotocol")
        files = [os.path.join("lsprotocol", n) for n in sorted(os.listdir(d)) if n.endswith(".cs")] if os.path.isdir(d) else []
    elif plugin == "testdata":
        files = [n for n in sorted(os.listdir(out)) if n.endswith(".json")] if os.path.isdir(out) else []
    dig = {}
    for rel in files:
        p = os.path.join(out, rel)
        if os.path.exists(p):
            with open(p, "rb") as f:
                dig[rel] = hashlib.sha256(f.read()).hexdigest()
        else:
            dig[rel] = "<missing>"
    return dig


def submodel(base: dict, methods: List[str]) -> dict:
    """closed sub-model: the given methods and everything they reference."""
    m = Model(base)
    need_s, need_e, need_a = set(), set(), set()

    def visit_type(t: dict) -> None:
        for _, t2 in m.iter_subtypes("x", t):
            if t2["kind"] == "reference":
                visit_name(t2["name"])

    def visit_name(n: str) -> None:
        if n in m.structs and n not in need_s:
            need_s.add(n)
            s = m.structs[n]
            for r in (s.get("extends") or []) + (s.get("mixins") or []):
                visit_name(r["name"])
            for p in s["properties"]:
                visit_type(p["type"])
        elif n in m.enums:
            need_e.add(n)
        elif n in m.aliases and n not in need_a:
            need_a.add(n)
            visit_type(m.aliases[n]["type"])

    reqs = [r for r in base["requests"] if r["method"] in methods]
    nots = [r for r in base["notifications"] if r["method"] in methods]
    for r in reqs + nots:
        for f in ("params", "result", "partialResult", "registrationOptions", "errorData"):
            if isinstance(r.get(f), dict):
                visit_type(r[f])
    for n in ("LSPAny", "LSPObject", "LSPArray", "SelectionRange", "Position", "Range"):
        visit_name(n)
    return {
        "metaData": base["metaData"],
        "requests": reqs, "notifications": nots,
        "structures": [s for s in base["structures"] if s["name"] in need_s],
        "enumerations": [e for e in base["enumerations"] if e["name"] in need_e],
        "typeAliases": [a for a in base["typeAliases"] if a["name"] in need_a],
    }


ODD_DIR_NAMES = ["", "out[v2]", "out dir", "", "o*t", "caf\u00e9-\u51fa\u529b", "", "out{a,b}", "x?y", "", "%TEMP%$HOME"]
HARNESS_VARIANTS = ["blank-after-markers", "no-markers", "no-start-marker", "no-end-marker", "markers-swapped", "crlf", "blank-lines-at-end", "no-final-newline"]
TOOL_CONFIGS = [
    ("rustfmt.toml", "hard_tabs = true\nmax_width = 60\n"),
    (".rustfmt.toml", "max_width = 40\ntab_spaces = 2\n"),
    ("pyproject.toml", "[tool.black]\nline-length = 30\n[tool.ruff]\nline-length = 30\n[tool.isort]\nforce_single_line = true\n"),
    ("ruff.toml", "line-length = 30\nindent-width = 2\n"),
    ("setup.cfg", "[flake8]\nmax-line-length = 30\n[isort]\nline_length = 30\n"),
    (".editorconfig", "root = true\n[*]\nindent_style = tab\nend_of_line = crlf\nmax_line_length = 40\n"),
    (".gitattributes", "* text eol=crlf\n"),
    ("Directory.Build.props", "<Project><PropertyGroup><Nullable>disable</Nullable></PropertyGroup></Project>\n"),
]


class Pool:
    """model lists written once into a scratch directory."""

    def __init__(self, seed: int, quick: bool, plugin: str):
        self.dir = gen.scratch("lspverif-c16-models-")
        base = load_doc(repo_path("generator", "lsp.json"))
        evolved: List[Tuple[dict, List[dict]]] = []
        mini(evolve.evolved(base, 2, 5, allow={"E1", "E2", "E3", "E4", "E5", "E6", "E7", "E8"}), 3, (seed, "C16", "pool"), lambda x: evolved.append(x))
        small_a = submodel(base, ["textDocument/hover", "textDocument/didOpen", "$/progress", "workspace/symbol"])
        # (colorPresentation declares the one `and` type of the committed model)
        small_b = submodel(base, ["textDocument/completion", "textDocument/didClose", "window/showMessage", "textDocument/colorPresentation"])
        # a reduced model that exercises every type production under every kind of name (literals, tuples, maps,
        # keyword names...): the places where a plugin invents names or iterates over sets
        mx: List[Tuple[dict, List[dict]]] = []
        mini(evolve.evolved(small_b, 0, 2, focus="matrix+literal+message-no-typename"), 2, (seed, "C16", "mx"), lambda x: mx.append(x))
        small_mx = mx[-1][0]
        ext = {"metaData": {"version": "x"}, "requests": [], "notifications": [
            {"method": "vf/extra", "messageDirection": "both", "typeName": "VfExtraNotification", "params": {"kind": "reference", "name": "VfExtraParams"}}],
            "structures": [{"name": "VfExtraParams", "properties": [{"name": "extraValue", "type": {"kind": "base", "name": "string"}}]}],
            "enumerations": [], "typeAliases": []}
        # same declarations as small_a, but the enumerations' openness differs (a different model for C16's purposes)
        small_a_open = copy.deepcopy(small_a)
        for e in small_a_open["enumerations"]:
            if e.get("supportsCustomValues"):
                e.pop("supportsCustomValues")
            else:
                e["supportsCustomValues"] = True
        # same declarations and counts as small_a, but a structure that others extend / mix in has changed
        small_a_base = copy.deepcopy(small_a)
        sm = Model(small_a_base)
        parents = collections.Counter(a for s in sm.structs for a in sm.ancestors(s))
        for pname, _ in parents.most_common(3):
            st_ = sm.structs[pname]
            st_["properties"].append({"name": "vfTrace" + pname[:6], "type": {"kind": "base", "name": "string"}, "optional": True})
            if st_["properties"][0].get("optional"):
                st_["properties"][0].pop("optional")
            else:
                st_["properties"][0]["optional"] = True
        # same model, only documentation / since / deprecated texts differ
        small_a_doc = copy.deepcopy(small_a)
        for i, decl in enumerate(small_a_doc["structures"] + small_a_doc["enumerations"] + small_a_doc["requests"] + small_a_doc["notifications"]):
            if i % 3 == 0:
                decl["documentation"] = (decl.get("documentation") or "") + "\nRevised wording."
            if i % 7 == 0:
                decl["since"] = "3.19.0"
        docs: Dict[str, dict] = {"small_a": small_a, "small_b": small_b, "ext": ext, "small_mx": small_mx, "small_a_open": small_a_open,
                                 "small_a_base": small_a_base, "small_a_doc": small_a_doc}
        if not (quick and plugin in ("dotnet", "testdata")):
            docs["evo1"] = evolved[-1][0]
            if plugin != "testdata":
                docs["evo2"] = evolved[-2][0]
        for name, d in docs.items():
            if not evolve.schema_valid(d):
                raise HarnessError(f"model pool entry {name} is not schema-valid: {evolve.schema_errors(d)}")
            with open(os.path.join(self.dir, name + ".json"), "w") as f:
                json.dump(d, f)
        committed = repo_path("generator", "lsp.json")
        P = lambda n: os.path.join(self.dir, n + ".json")
        self.lists: Dict[str, List[str]] = {
            "small_a": [P("small_a")], "small_b": [P("small_b")], "small_a+ext": [P("small_a"), P("ext")],
            "small_mx": [P("small_mx")], "small_a_open": [P("small_a_open")], "small_a_base": [P("small_a_base")], "small_a_doc": [P("small_a_doc")],
        }
        slow = plugin in ("dotnet", "testdata")
        if not (quick and slow):
            self.lists["evo1"] = [P("evo1")]
            if not (slow and plugin == "testdata"):
                self.lists["committed"] = [committed]
                self.lists["committed+ext"] = [committed, P("ext")]
            if "evo2" in docs:
                self.lists["evo2"] = [P("evo2")]
        if quick and plugin == "dotnet":
            self.lists["committed"] = [committed]
        self.keys = sorted(self.lists)

    def close(self) -> None:
        shutil.rmtree(self.dir, ignore_errors=True)


def make_machine(plugin: str, pool: Pool, ctx: Ctx, stats: collections.Counter, refs: Dict[str, Tuple[int, Dict[str, str]]]):
    class GenMachine(RuleBasedStateMachine):
        def __init__(self, shape_override: Optional[str] = None):
            super().__init__()
            self.base_dir = gen.scratch(f"lspverif-c16-{plugin}-")
            # the name of the output directory is not part of the input either: brackets, blanks, wildcards, non-ASCII
            name = ODD_DIR_NAMES[(len(refs) + stats["runs"]) % len(ODD_DIR_NAMES)] if stats["machines"] else "out[v2] caf\u00e9"
            stats["machines"] += 1   # (the first machine of a worker is the one of the scripted history, when there is one)
            # ... nor is what the directory looked like before the first run: every fourth machine writes into a directory
            # called like the plugin and names it relative to its parent (`-o rust`), every fourth finds the package
            # directory already there, every fourth the output of another plugin
            shape = shape_override if shape_override is not None else ["plain", "plugin-named", "package-dir-exists", "other-plugin-first"][stats["machines"] % 4]
            self.shape = shape
            if shape == "plugin-named":
                name = plugin
            self.out = os.path.join(self.base_dir, name) if name else self.base_dir
            os.makedirs(self.out, exist_ok=True)
            self.history: List[Any] = []
            self.last_key: Optional[str] = None
            self.dirty = False
            stats["shape_" + shape] += 1
            if shape == "package-dir-exists":
                os.makedirs(os.path.join(self.out, "lsprotocol"), exist_ok=True)
                self.history.append(["precreated", "lsprotocol/"])
            elif shape == "other-plugin-first":
                other = "rust" if plugin == "python" else "python"
                r0 = gen.run_generator(other, self.out, models=pool.lists["small_a"], hashseed=0, timeout=1800)
                if r0.returncode != 0:
                    raise HarnessError(f"preparing a directory with the {other} plugin failed: {(r0.stderr or r0.stdout)[-300:]}")
                self.history.append(["other-plugin", other, "small_a"])

        def teardown(self):
            shutil.rmtree(self.base_dir, ignore_errors=True)

        def reference(self, key: str) -> Tuple[int, Dict[str, str]]:
            if key not in refs:
                d = gen.scratch(f"lspverif-c16-ref-{plugin}-")
                try:
                    hs = 987654321 % (2**32)
                    r = gen.run_generator(plugin, d, models=pool.lists[key], hashseed=hs, timeout=1800)
                    if r.returncode != 0:
                        refs[key] = (hs, {"<plugin failed>": (r.stderr or r.stdout)[-200:]})
                        stats["reference_failed"] += 1
                        if not key.startswith("evo"):
                            # the committed model and what is cut out of it generate: a failure in a fresh directory is a
                            # fault of the harness or of the tree, never "C06's matter"
                            raise HarnessError(f"the reference run of {plugin} on pool model {key} fails in a fresh directory: {(r.stderr or r.stdout)[-300:]}")
                    else:
                        refs[key] = (hs, owned_digest(plugin, d))
                    stats["reference_runs"] += 1
                finally:
                    shutil.rmtree(d, ignore_errors=True)
            return refs[key]

        def do_run(self, key: str, hashseed: int, spelling: str = "default") -> None:
            ref_seed, ref = self.reference(key)
            if self.shape == "plugin-named" and spelling == "default":
                spelling = "relative"
            r = gen.run_generator(plugin, self.out, models=pool.lists[key], hashseed=hashseed, timeout=1800, spelling=spelling)
            stats["runs"] += 1
            stats[f"runs_spelling_{spelling}"] += 1
            nontrivial = (self.last_key not in (None, key)) or self.dirty or hashseed != ref_seed or spelling != "default"
            self.history.append(["run", key, hashseed] + ([spelling] if spelling != "default" else []))
            if nontrivial:
                stats["nontrivial_runs"] += 1
            stats["histories_hash"] = 0
            case = {"plugin": plugin, "history": list(self.history), "shape": self.shape}
            if r.returncode != 0:
                if "<plugin failed>" in ref:
                    return  # fails the same way in a fresh directory: not a determinism matter (C06)
                ctx.finding(("run-failed", plugin, "after:" + ("stale" if self.dirty else str(self.last_key))), (r.stderr or r.stdout)[-300:], case)
                return
            got = owned_digest(plugin, self.out)
            if got != ref:
                extra = sorted(set(got) - set(ref))
                missing = sorted(set(ref) - set(got))
                differ = sorted(k for k in got if k in ref and got[k] != ref[k])
                if extra:
                    sym, detail = "stale-file-survives", f"{len(extra)} owned files not produced by a fresh run survive, e.g. {extra[:3]}"
                elif missing:
                    sym, detail = "file-missing", f"{len(missing)} files of a fresh run are absent, e.g. {missing[:3]}"
                else:
                    sym, detail = "bytes-differ", f"{len(differ)} files differ from the fresh-directory reference, e.g. {differ[:3]}"
                why = "stale" if self.dirty else ("other-model" if self.last_key not in (None, key) else "hashseed")
                ctx.finding((sym, plugin, why), detail + f"; history {self.history}", case)
            self.last_key = key
            self.dirty = False

        @rule(k=st.integers(0, len(pool.keys) - 1), hs=st.one_of(st.sampled_from([0, 1, 2, 987654321]), st.integers(0, 2**32 - 1)),
              sp=st.sampled_from(["default", "default", "cwd", "relative", "minpath", "elsewhen", "optimised"]))
        def run(self, k, hs, sp):
            self.do_run(pool.keys[k], hs, sp)

        @precondition(lambda self: self.last_key is not None)
        @rule(hs=st.integers(0, 2**32 - 1))
        def rerun(self, hs):
            self.do_run(self.last_key, hs)

        @precondition(lambda self: self.last_key is not None)
        @rule(kind=st.sampled_from(["owned-pattern", "overwrite", "truncate", "tool-config", "crlf", "cr", "bom", "trailing-space"]), tag=st.integers(0, 999))
        def plant_stale(self, kind, tag):
            self._plant(kind, tag)

        @precondition(lambda self: self.last_key is not None)
        @rule(kind=st.sampled_from(["overwrite", "truncate", "crlf", "cr", "bom", "trailing-space"]), tag=st.integers(0, 999), hs=st.integers(0, 2**32 - 1))
        def damage_and_rerun(self, kind, tag, hs):
            self._plant(kind, tag)
            self.do_run(self.last_key, hs)

        @precondition(lambda self: plugin == "rust" and self.last_key is not None)
        @rule(variant=st.sampled_from(HARNESS_VARIANTS), hs=st.integers(0, 2**32 - 1))
        def harness_variant(self, variant, hs):
            self.harness_idempotence(variant, hs)

        def harness_idempotence(self, variant: str, hs: int) -> None:
            """the test harness the rust plugin edits in place, as somebody's editor or merge left it: whatever the first run
            makes of it, the second run has to leave it at that (and the library does not depend on it at all)."""
            pristine = os.path.join(repo_path("tests", "rust"), "src", "main.rs")
            target = os.path.join(self.out, "_tests", "src", "main.rs")
            if not (os.path.exists(pristine) and os.path.exists(target)):
                return
            with open(pristine, encoding="utf-8") as f:
                text = f.read()
            lines = text.split("\n")
            S, E = "GENERATED_TEST_CODE:start", "GENERATED_TEST_CODE:end"
            if variant == "blank-after-markers":
                lines = [ln + "  " if ln.endswith((S, E)) else ln for ln in lines]
            elif variant == "no-markers":
                lines = [ln for ln in lines if not ln.endswith((S, E))]
            elif variant == "no-start-marker":
                lines = [ln for ln in lines if not ln.endswith(S)]
            elif variant == "no-end-marker":
                lines = [ln for ln in lines if not ln.endswith(E)]
            elif variant == "markers-swapped":
                lines = [ln.replace(S, "\0").replace(E, S).replace("\0", E) for ln in lines]
            elif variant == "crlf":
                lines = [ln + "\r" for ln in lines[:-1]] + lines[-1:]
            elif variant == "blank-lines-at-end":
                lines = lines + ["", ""]
            elif variant == "no-final-newline":
                while lines and lines[-1] == "":
                    lines.pop()
            with open(target, "w", encoding="utf-8", newline="") as f:
                f.write("\n".join(lines))
            self.history.append(["harness", variant])
            stats["harness_variants"] += 1
            key = self.last_key
            _, ref = self.reference(key)
            seen = []
            for i in range(3):
                r = gen.run_generator(plugin, self.out, models=pool.lists[key], hashseed=hs, timeout=1800)
                stats["runs"] += 1
                stats["nontrivial_runs"] += 1
                self.history.append(["run", key, hs])
                case = {"plugin": plugin, "history": list(self.history), "shape": self.shape}
                if r.returncode != 0:
                    if "<plugin failed>" not in ref:
                        ctx.finding(("run-failed", plugin, "harness:" + variant), (r.stderr or r.stdout)[-300:], case)
                    break
                got = owned_digest(plugin, self.out)
                lib = os.path.join("lsprotocol", "src", "lib.rs")
                if got.get(lib) != ref.get(lib):
                    ctx.finding(("bytes-differ", plugin, "harness:" + variant), f"lib.rs differs from the fresh-directory reference; history {self.history}", case)
                seen.append(got.get(os.path.join("_tests", "src", "main.rs")))
                if i and seen[-1] != seen[-2]:
                    with open(target, "rb") as f:
                        size = len(f.read())
                    ctx.finding(("harness-not-a-fixed-point", plugin, variant),
                                f"run {i + 1} on the same model rewrites the test harness that run {i} left ({size} bytes now); history {self.history}", case)
                    break
            # back to the project's harness for what follows
            shutil.copyfile(pristine, target)
            self.dirty = True

        def _plant(self, kind, tag):
            self.history.append(["plant", kind, tag])
            self.dirty = True
            stats["plants"] += 1
            if kind == "tool-config":
                # files that formatters and build tools pick up from the directory they work in (nobody's generated file)
                name, text = TOOL_CONFIGS[tag % len(TOOL_CONFIGS)]
                where = [self.out, os.path.join(self.out, "lsprotocol"), os.path.join(self.out, "lsprotocol", "src")][(tag // len(TOOL_CONFIGS)) % 3]
                os.makedirs(where, exist_ok=True)
                with open(os.path.join(where, name), "w") as f:
                    f.write(text)
                return
            if plugin == "dotnet":
                d = os.path.join(self.out, "lsprotocol")
                target = os.path.join(d, f"Stale{tag}.cs") if kind == "owned-pattern" else os.path.join(d, "Position.cs")
            elif plugin == "testdata":
                target = os.path.join(self.out, f"StaleRequest-True-{tag:064d}.json")
                if kind != "owned-pattern":
                    names = [n for n in sorted(os.listdir(self.out)) if n.endswith(".json")]
                    target = os.path.join(self.out, names[tag % len(names)]) if names else target
            elif plugin == "python":
                target = os.path.join(self.out, "lsprotocol", "types.py")
            else:
                target = os.path.join(self.out, "lsprotocol", "src", "lib.rs")
            os.makedirs(os.path.dirname(target), exist_ok=True)
            if kind in ("crlf", "cr", "bom", "trailing-space"):
                # a genuine file whose bytes differ only in ways a text-mode comparison does not see (a checkout with
                # autocrlf, an editor that adds a BOM or trailing blanks)
                if os.path.exists(target):
                    with open(target, "rb") as f:
                        data = f.read()
                    data = {"crlf": data.replace(b"\r\n", b"\n").replace(b"\n", b"\r\n"), "cr": data.replace(b"\r\n", b"\n").replace(b"\n", b"\r"),
                            "bom": b"\xef\xbb\xbf" + data, "trailing-space": data.replace(b"\n", b" \n", 3)}[kind]
                    with open(target, "wb") as f:
                        f.write(data)
                return
            if kind == "truncate" and os.path.exists(target):
                with open(target, "r+b") as f:
                    f.truncate(10)
            else:
                with open(target, "w") as f:
                    f.write(f"// stale content {tag}\n")

    return GenMachine


def child_inprocess(plugin: str, lists: Dict[str, List[str]], order: List[str]) -> dict:
    """several generations inside ONE process (the plugin entry point called exactly as __main__ does), each into a
    fresh directory; returns the digest map of every run."""
    import importlib
    import logging
    from ..subject import setup_sys_path
    setup_sys_path()
    from generator import model as gmodel
    mod = importlib.import_module(f"generator.plugins.{plugin}")
    logging.disable(logging.CRITICAL)
    out = []
    specs: Dict[str, Any] = {}
    for key in order:
        d = gen.scratch(f"lspverif-c16-inproc-{plugin}-")
        if key.startswith("~"):
            # "~other=k": another plugin generates from the model object loaded for k (its output is not looked at here)
            other, k2 = key[1:].split("=", 1)
            try:
                if k2 in specs:
                    importlib.import_module(f"generator.plugins.{other}").generate(specs[k2], d, gen.prepare_test_dir(other, d))
            except Exception:
                pass
            finally:
                shutil.rmtree(d, ignore_errors=True)
            continue
        again = key.startswith("=")   # "=k": generate once more from the model object loaded for the previous run of k
        key = key.lstrip("=")
        try:
            if again and key in specs:
                spec = specs[key]
            else:
                docs = [json.load(open(p_)) for p_ in lists[key]]
                spec = specs[key] = gmodel.create_lsp_model(docs)
            mod.generate(spec, d, gen.prepare_test_dir(plugin, d))
            out.append([key, owned_digest(plugin, d)])
        except Exception as e:
            out.append([key, {"<plugin failed>": f"{type(e).__name__}: {e}"[:200]}])
        finally:
            shutil.rmtree(d, ignore_errors=True)
    return {"runs": out}


def _work(args) -> dict:
    plugin, shard, seed, quick = args
    ctx = Ctx("C16", "quick", seed)
    stats: collections.Counter = collections.Counter()
    pool = Pool(seed, quick, plugin)
    refs: Dict[str, Tuple[int, Dict[str, str]]] = {}
    histories: List[Any] = []
    try:
        M = make_machine(plugin, pool, ctx, stats, refs)
        orig_teardown = M.teardown

        def teardown(self):
            histories.append(list(self.history))
            orig_teardown(self)

        M.teardown = teardown
        slow = plugin in ("dotnet", "testdata")
        if quick:
            examples, steps = (2, 4) if slow else (3, 6)
        else:
            examples, steps = (6, 6) if slow else (12, 8)
        if shard == 0:
            # the committed replay tier of this property: one scripted history per plugin that visits every kind
            # of predecessor state (same model re-run, genuine file damaged, owned-pattern stale file, other model)
            mach = M()
            try:
                a, b = ("small_a", "small_b")
                mach.do_run(a, 0)
                for kind, tag in (("truncate", 3), ("overwrite", 7), ("owned-pattern", 11)):
                    mach._plant(kind, tag)
                    mach.do_run(a, 1)
                for kind in ("crlf", "cr", "bom", "trailing-space"):   # genuine files re-encoded in place
                    mach._plant(kind, 13)
                    mach.do_run(a, 1)
                for tag in range(len(TOOL_CONFIGS) * 3):   # configuration files of formatters / build tools, at every level
                    mach._plant("tool-config", tag)
                mach.do_run(a, 1)
                mach.do_run(a, 1, "minpath")
                mach.do_run(a, 1, "elsewhen")
                mach.do_run(a, 1, "optimised")
                for key in ("small_a_open", a, "small_a_base", a, "small_a_doc", a):   # models that differ only inside shared declarations
                    mach.do_run(key, 2)
                mach.do_run(b, 2)
                for hs in (0, 1, 2, 3, 4, 5):   # hash seeds on the name-inventing model
                    mach.do_run("small_mx", hs)
                mach._plant("owned-pattern", 5)
                mach.do_run("small_a+ext", 3)
                mach.do_run(a, 987654321)
                if plugin == "rust":
                    for variant in HARNESS_VARIANTS:
                        mach.harness_idempotence(variant, 1)
                    mach.do_run(a, 1)
                stats["scripted_histories"] += 1
            finally:
                mach.teardown()
            # what the output directory is called and what it held before the first run
            for shape in ("plugin-named", "package-dir-exists", "other-plugin-first"):
                mach = M(shape)
                try:
                    mach.do_run(a, 0)
                    mach.do_run(a, 1)
                    mach.do_run(b, 2, "relative")
                    mach.do_run(a, 3)
                    stats["scripted_histories"] += 1
                finally:
                    mach.teardown()
        if shard == 1:
            # in-process history: the same model generated before and after other models within one process
            from .c19 import in_child
            order = ["small_a", "=small_a", "small_a_open", "small_a", "small_a_base", "small_a", "small_a_doc", "small_mx", "small_b", "=small_b", "small_a_base",
                     "small_mx", "=small_mx", "=small_a"]
            # one model object handed to several plugins in turn (a build script that loads once and generates every package)
            for other in [p_ for p_ in PLUGINS if p_ != plugin]:
                order += [f"~{other}=small_b", "=small_b"]
            res = in_child(child_inprocess, plugin, pool.lists, order, timeout=1500)
            if res is None:
                stats["inprocess_history_timed_out"] += 1
            if res is not None:
                mref = M()
                try:
                    positions = [n_ for n_, k_ in enumerate(order) if not k_.startswith("~")]   # (the "~" steps record nothing)
                    for i, (key, dig) in enumerate(res["runs"]):
                        _, ref = mref.reference(key)
                        stats["inprocess_runs"] += 1
                        upto = order[: positions[i] + 1]
                        if dig != ref and "<plugin failed>" not in ref:
                            differ = sorted(k for k in set(dig) | set(ref) if dig.get(k) != ref.get(k))
                            after_other = upto[-2][1:].split("=")[0] if len(upto) > 1 and upto[-2].startswith("~") else None
                            ctx.finding(("inprocess-output-differs", plugin, f"after-plugin:{after_other}" if after_other else f"run {positions[i] + 1} of {len(order)}"),
                                        f"generating {key} as step {positions[i] + 1} of the in-process history {upto} differs from a fresh process: {differ[:3]}",
                                        {"plugin": plugin, "history": upto})
                finally:
                    mref.teardown()
        run_state_machine_as_test(
            hypothesis.seed(derive_seed(seed, "C16", plugin, shard))(M),
            settings=settings(max_examples=examples, stateful_step_count=steps, database=None, deadline=None,
                              report_multiple_bugs=False, phases=[Phase.generate], suppress_health_check=list(HealthCheck),
                              verbosity=hypothesis.Verbosity.quiet),
        )
    finally:
        pool.close()
    stats.pop("histories_hash", None)
    return {"violations": list(ctx.violations.values()), "known_hits": ctx.known_hits, "known_examples": ctx.known_examples,
            "stats": dict(stats), "histories": histories, "plugin": plugin, "pool": pool.keys}


def run(ctx: Ctx) -> None:
    shards = 4 if ctx.quick else 4
    jobs = [(p, s, ctx.seed, ctx.quick) for p in PLUGINS for s in range(shards)]
    # slow plugins first so that they do not become the tail
    jobs.sort(key=lambda j: j[0] not in ("testdata", "dotnet"))
    results = runner.pmap(_work, jobs)
    stats: Dict[str, collections.Counter] = {p: collections.Counter() for p in PLUGINS}
    distinct = set()
    samples = []
    total_runs = 0
    for r in results:
        stats[r["plugin"]].update(r["stats"])
        total_runs += r["stats"].get("runs", 0)
        for h in r["histories"]:
            nontriv = any(x[0] == "plant" for x in h) or len({x[1] for x in h if x[0] == "run"}) > 1 or any(x[0] == "run" and x[2] != 987654321 for x in h)
            if h and nontriv:
                distinct.add(json.dumps([r["plugin"], h]))
        if r["histories"] and len(samples) < 4:
            longest = max(r["histories"], key=len)
            samples.append({"plugin": r["plugin"], "history": longest[:8], "model_pool": r["pool"]})
        ctx.merge_worker(r)
    ctx.coverage.update({
        "evaluations": max(total_runs, 1), "distinct_nontrivial": len(distinct), "rule": RULE, "samples": samples,
        "per_plugin": {p: dict(c) for p, c in stats.items()}, "exhaustive": False,
    })
    ctx.assumptions = [
        "plugin-owned files: lsprotocol/types.py (python), lsprotocol/src/lib.rs (rust), lsprotocol/*.cs (dotnet), *.json directly under the output directory (testdata)",
        "quick tier: dotnet/testdata run on reduced closed sub-models (and dotnet once on the committed model); thorough adds evolved and committed models",
    ]
    if total_runs < 8:
        raise HarnessError("too few generator runs")


def replay(ctx: Ctx, path: str) -> int:
    """re-execute the recorded history (real generator runs, no Hypothesis)."""
    with open(path) as f:
        rp = json.load(f)
    case = rp["case"]
    plugin, history = case.get("plugin"), case.get("history")
    if not plugin or not history or not isinstance(history[0], list):
        run(ctx)
        return ctx.finish()
    pool = Pool(rp.get("seed", ctx.seed), rp.get("tier", "quick") == "quick", plugin)
    stats: collections.Counter = collections.Counter()
    try:
        M = make_machine(plugin, pool, ctx, stats, {})
        stats["machines"] = 4   # (not the first machine of a worker: the directory name comes from the table)
        mach = M(case.get("shape") or "plain")
        try:
            i = 0
            while i < len(history):
                step = history[i]
                i += 1
                if step[0] == "run":
                    if step[1] not in pool.lists:
                        raise HarnessError(f"model list {step[1]} is not in the pool of this tier/seed")
                    mach.do_run(step[1], step[2], step[3] if len(step) > 3 else "default")
                elif step[0] == "plant":
                    mach._plant(step[1], step[2])
                elif step[0] == "harness":
                    # the rule runs the generator itself (up to three times): those runs are part of the step
                    hs = history[i][2] if i < len(history) and history[i][0] == "run" else 1
                    mach.harness_idempotence(step[1], hs)
                    skipped = 0
                    while i < len(history) and skipped < 3 and history[i][0] == "run" and history[i][1] == mach.last_key and history[i][2] == hs and len(history[i]) == 3:
                        i += 1
                        skipped += 1
                # ("precreated" / "other-plugin" steps are what the machine of that shape does when it is set up)
        finally:
            mach.teardown()
    finally:
        pool.close()
    ctx.coverage.update({"evaluations": max(1, stats["runs"]), "distinct_nontrivial": 2, "rule": "replay of one history", "samples": [{"history": history[:8]}]})
    return ctx.finish()
