"""C18 — model loading is lossless, merge is concatenation, invalid models write nothing."""
from __future__ import annotations

import collections
import copy
import json
import os
import shutil
import subprocess
from typing import Any, Dict, List, Optional, Tuple

import attrs
from hypothesis import strategies as st

from .. import evolve, gen, runner
from ..hyp import mini
from ..refmodel import load_doc
from ..runner import Ctx, HarnessError
from ..subject import REPO, repo_path, setup_sys_path

RULE = (
    "documents = committed lsp.json, Hypothesis-evolved models (edit sequences E1-E7) and schema-directed valid "
    "mutations (annotations on every node kind incl. structure literals, integerLiteral/booleanLiteral types, all map-key "
    "kinds, params arrays); oracles: (a) generic read-back of the loaded attrs tree == document (every declaration, "
    "property, type expression, annotation, in order); (b) create_lsp_model([d1..dn]) reads back as d1 with the five "
    "lists concatenated; (c) two loads compare equal, a structural single edit compares unequal, ==/!= never raise, also "
    "against foreign objects; (d) single schema-violating edits x 4 plugins x position in the model list: "
    "generator.__main__.main raises before any plugin code runs (spy) and nothing is written; a sample through the real "
    "CLI; (e) model *files* (non-ASCII characters escaped / raw UTF-8, and the committed file) through the real command "
    "under the default environment and under a non-UTF-8 locale encoding: same output as the reference, no failure. "
    "non-trivial = evolved/mutated document, unequal pair, or violating edit; distinct = sha256 of the document/edit"
)


def gmodel():
    setup_sys_path()
    from generator import model
    return model


# ---- (a) read-back ---------------------------------------------------------------------------
def read_back(x: Any) -> Any:
    if attrs.has(type(x)):
        out = {}
        for f in attrs.fields(type(x)):
            if f.name == "id_":
                continue
            v = getattr(x, f.name)
            if v is None:
                continue
            out[f.name] = read_back(v)
        return out
    if isinstance(x, (list, tuple)):
        return [read_back(v) for v in x]
    if isinstance(x, dict):
        return {k: read_back(v) for k, v in x.items()}
    return x


def normalise(d: Any) -> Any:
    """the same normalisation on both sides: drop empty extends/mixins (the loader's defaults) and nulls."""
    if isinstance(d, dict):
        out = {}
        for k, v in d.items():
            if v is None:
                continue
            if k in ("extends", "mixins") and v == []:
                continue
            out[k] = normalise(v)
        return out
    if isinstance(d, list):
        return [normalise(v) for v in d]
    return d


def first_diff(a: Any, b: Any, path: str = "$") -> Optional[str]:
    if type(a) is not type(b) and not (isinstance(a, (int, float)) and isinstance(b, (int, float)) and not isinstance(a, bool) and not isinstance(b, bool)):
        return f"{path}: {type(a).__name__} vs {type(b).__name__}"
    if isinstance(a, dict):
        for k in a:
            if k not in b:
                return f"{path}.{k}: missing after load"
        for k in b:
            if k not in a:
                return f"{path}.{k}: invented by load"
        for k in a:
            d = first_diff(a[k], b[k], f"{path}.{k}")
            if d:
                return d
        return None
    if isinstance(a, list):
        if len(a) != len(b):
            return f"{path}: length {len(a)} vs {len(b)}"
        for i, (x, y) in enumerate(zip(a, b)):
            d = first_diff(x, y, f"{path}[{i}]")
            if d:
                return d
        return None
    return None if a == b else f"{path}: {a!r} vs {b!r}"


def generalise(path: str) -> str:
    import re
    return re.sub(r"\[\d+\]", "[]", path)


# ---- schema-directed valid mutations --------------------------------------------------------------
def extra_mutations(base: dict) -> st.SearchStrategy:
    @st.composite
    def _s(draw):
        doc = copy.deepcopy(base)
        kinds = draw(st.lists(st.sampled_from(["lit-annot", "int-literal", "bool-literal", "map-key", "params-array", "error-data", "enum-annot", "prop-sincetags"]), min_size=1, max_size=3))
        struct = {"name": "VxCarrier" + str(draw(st.integers(0, 999))), "properties": []}
        for k in kinds:
            n = len(struct["properties"])
            if k == "lit-annot":
                lit = {"properties": [{"name": "inner", "type": {"kind": "base", "name": "string"}}]}
                for a, v in (("documentation", "doc"), ("since", "3.18.0"), ("proposed", True), ("deprecated", "old"), ("sinceTags", ["3.18.0"])):
                    if draw(st.booleans()):
                        lit[a] = v
                if len(lit) == 1:
                    lit["documentation"] = "doc"
                struct["properties"].append({"name": f"vxLiteral{'abcdefgh'[n]}", "type": {"kind": "literal", "value": lit}})
            elif k == "int-literal":
                struct["properties"].append({"name": f"vxInt{'abcdefgh'[n]}", "type": {"kind": "integerLiteral", "value": draw(st.integers(-5, 5))}})
            elif k == "bool-literal":
                struct["properties"].append({"name": f"vxBool{'abcdefgh'[n]}", "type": {"kind": "booleanLiteral", "value": draw(st.booleans())}})
            elif k == "map-key":
                key = draw(st.sampled_from([{"kind": "base", "name": "integer"}, {"kind": "base", "name": "URI"},
                                            {"kind": "reference", "name": "ChangeAnnotationIdentifier"}, {"kind": "base", "name": "string"}]))
                struct["properties"].append({"name": f"vxMap{'abcdefgh'[n]}", "type": {"kind": "map", "key": key, "value": {"kind": "base", "name": "string"}}})
            elif k == "params-array":
                doc["requests"].append({"method": f"vx/multi{n}", "messageDirection": "both", "result": {"kind": "base", "name": "null"},
                                        "params": [{"kind": "base", "name": "string"}, {"kind": "reference", "name": "Position"}]})
            elif k == "error-data":
                r = doc["requests"][draw(st.integers(0, len(doc["requests"]) - 1))]
                r["errorData"] = {"kind": "reference", "name": "Position"}
                r["registrationMethod"] = "vx/registration"
            elif k == "enum-annot":
                e = doc["enumerations"][draw(st.integers(0, len(doc["enumerations"]) - 1))]
                e["values"][0]["sinceTags"] = ["3.0", "3.1"]
                e["deprecated"] = "gone"
            elif k == "prop-sincetags":
                s = doc["structures"][draw(st.integers(0, len(doc["structures"]) - 1))]
                if s["properties"]:
                    s["properties"][0]["sinceTags"] = ["3.17.0"]
                    s["properties"][0]["proposed"] = False
        if struct["properties"]:
            doc["structures"].append(struct)
        if not evolve.schema_valid(doc):
            raise HarnessError(f"extra mutation produced a schema-invalid document: {evolve.schema_errors(doc)}")
        return doc, [{"edit": "X-" + k} for k in kinds]

    return _s()


# ---- (c) structural single edits ---------------------------------------------------------------------
STRUCTURAL_KINDS = [
    "struct-name", "prop-type", "prop-optional", "prop-name", "extends", "enum-value", "enum-type", "method", "direction",
    "params", "result", "partial", "errordata", "regopts", "regmethod", "version", "drop-struct", "drop-alias", "swap-structs",
    "alias-type", "alias-name", "swap-aliases", "notif-method", "drop-enum", "literal-prop", "array-element", "or-order",
    "or-to-tuple", "tuple-to-or", "and-to-or", "array-to-map",
    # declarations that differ in what is generated from them: an enumeration that is open or closed, the name of a message's class
    "enum-open", "type-name",
]


def structural_edit(doc: dict, kind: Optional[str] = None) -> st.SearchStrategy:
    @st.composite
    def _s(draw):
        d = copy.deepcopy(doc)
        k = kind or draw(st.sampled_from(STRUCTURAL_KINDS))
        pick = lambda seq: seq[draw(st.integers(0, len(seq) - 1))]
        other_t = {"kind": "base", "name": "decimal"}
        if k == "struct-name":
            pick(d["structures"])["name"] += "X"
        elif k == "prop-type":
            s = pick([s for s in d["structures"] if s["properties"]])
            p = pick(s["properties"])
            p["type"] = other_t if p["type"] != other_t else {"kind": "base", "name": "string"}
        elif k == "prop-optional":
            s = pick([s for s in d["structures"] if s["properties"]])
            p = pick(s["properties"])
            p["optional"] = not bool(p.get("optional"))
        elif k == "prop-name":
            s = pick([s for s in d["structures"] if s["properties"]])
            pick(s["properties"])["name"] += "X"
        elif k == "extends":
            s = pick(d["structures"])
            s.setdefault("extends", []).append({"kind": "reference", "name": "Position"})
        elif k == "enum-value":
            e = pick(d["enumerations"])
            v = pick(e["values"])
            v["value"] = v["value"] + "x" if isinstance(v["value"], str) else v["value"] + 1000
        elif k == "enum-type":
            e = pick([e for e in d["enumerations"] if e["type"]["name"] != "string"])
            e["type"]["name"] = "integer" if e["type"]["name"] == "uinteger" else "uinteger"
        elif k == "method":
            pick(d["requests"])["method"] += "X"
        elif k == "enum-open":
            e = pick(d["enumerations"])
            if e.get("supportsCustomValues"):
                e.pop("supportsCustomValues")
            else:
                e["supportsCustomValues"] = True
        elif k == "type-name":
            m = pick(d["requests"] + d["notifications"])
            if m.get("typeName") and draw(st.booleans()):
                m.pop("typeName")
            else:
                m["typeName"] = (m.get("typeName") or "Vx") + "Other"
        elif k == "notif-method":
            pick(d["notifications"])["method"] += "X"
        elif k == "direction":
            m = pick(d["requests"] + d["notifications"])
            m["messageDirection"] = "both" if m["messageDirection"] != "both" else "clientToServer"
        elif k == "params":
            m = pick(d["requests"] + d["notifications"])
            m["params"] = other_t if m.get("params") != other_t else {"kind": "base", "name": "string"}
        elif k == "result":
            m = pick(d["requests"])
            m["result"] = other_t if m.get("result") != other_t else {"kind": "base", "name": "string"}
        elif k == "partial":
            m = pick(d["requests"])
            m["partialResult"] = other_t if m.get("partialResult") != other_t else {"kind": "base", "name": "string"}
        elif k == "errordata":
            m = pick(d["requests"])
            m["errorData"] = other_t if m.get("errorData") != other_t else {"kind": "base", "name": "string"}
        elif k == "regopts":
            m = pick(d["requests"] + d["notifications"])
            m["registrationOptions"] = other_t if m.get("registrationOptions") != other_t else {"kind": "base", "name": "string"}
        elif k == "regmethod":
            m = pick(d["requests"] + d["notifications"])
            m["registrationMethod"] = (m.get("registrationMethod") or "") + "x"
        elif k == "version":
            d["metaData"]["version"] += ".1"
        elif k == "drop-struct":
            d["structures"].pop(draw(st.integers(0, len(d["structures"]) - 1)))
        elif k == "drop-alias":
            d["typeAliases"].pop(draw(st.integers(0, len(d["typeAliases"]) - 1)))
        elif k == "drop-enum":
            d["enumerations"].pop(draw(st.integers(0, len(d["enumerations"]) - 1)))
        elif k == "swap-structs":
            i = draw(st.integers(0, len(d["structures"]) - 2))
            d["structures"][i], d["structures"][i + 1] = d["structures"][i + 1], d["structures"][i]
        elif k == "swap-aliases":
            i = draw(st.integers(0, len(d["typeAliases"]) - 2))
            d["typeAliases"][i], d["typeAliases"][i + 1] = d["typeAliases"][i + 1], d["typeAliases"][i]
        elif k == "alias-type":
            a = pick(d["typeAliases"])
            a["type"] = other_t if a["type"] != other_t else {"kind": "base", "name": "string"}
        elif k == "alias-name":
            pick(d["typeAliases"])["name"] += "X"
        elif k == "literal-prop":
            d["structures"][0]["properties"].append({"name": "vxLit", "type": {"kind": "literal", "value": {"properties": [{"name": "a", "type": other_t}]}}})
        elif k == "array-element":
            cands = [(s, p) for s in d["structures"] for p in s["properties"] if p["type"]["kind"] == "array"]
            s, p = pick(cands)
            p["type"]["element"] = other_t if p["type"]["element"] != other_t else {"kind": "base", "name": "string"}
        elif k in ("or-to-tuple", "tuple-to-or", "and-to-or", "array-to-map"):
            # the same member types under a different composite kind
            frm, to = {"or-to-tuple": ("or", "tuple"), "tuple-to-or": ("tuple", "or"), "and-to-or": ("and", "or"), "array-to-map": ("array", "map")}[k]
            hits: List[dict] = []

            def scan(t):
                if isinstance(t, dict) and "kind" in t:
                    if t["kind"] == frm:
                        hits.append(t)
                    for v in t.values():
                        if isinstance(v, list):
                            for x in v:
                                scan(x)
                        elif isinstance(v, dict):
                            scan(v)
            for s in d["structures"]:
                for p in s["properties"]:
                    scan(p["type"])
            for m in d["requests"] + d["notifications"]:
                for f in ("params", "result", "partialResult", "registrationOptions"):
                    if isinstance(m.get(f), dict):
                        scan(m[f])
            tnode = pick(hits)
            if to == "map":
                el = tnode.pop("element")
                tnode.update({"kind": "map", "key": {"kind": "base", "name": "string"}, "value": el})
            else:
                tnode["kind"] = to
        elif k == "or-order":
            cands = [(s, p) for s in d["structures"] for p in s["properties"] if p["type"]["kind"] == "or" and p["type"]["items"][0] != p["type"]["items"][-1]]
            s, p = pick(cands)
            p["type"]["items"] = list(reversed(p["type"]["items"]))
        return k, d

    return _s()


# ---- (d) schema-violating single edits -----------------------------------------------------------------
VIOLATING_KINDS = [
    "request-no-result", "request-no-direction", "bad-direction", "sincetags-not-strings", "tuple-items-string",
    "struct-extra-key", "prop-extra-key", "prop-no-type", "optional-not-bool", "enum-no-values", "enum-bad-base",
    "alias-no-type", "metadata-extra", "base-bad-name", "top-extra-key", "method-not-string", "no-structures",
    "struct-no-name", "documentation-not-string",
]


def violating_edit(doc: dict, kind: Optional[str] = None) -> st.SearchStrategy:
    @st.composite
    def _s(draw):
        d = copy.deepcopy(doc)
        pick = lambda seq: seq[draw(st.integers(0, len(seq) - 1))]
        k = kind or draw(st.sampled_from(VIOLATING_KINDS))
        if k == "request-no-result":
            pick(d["requests"]).pop("result", None)
        elif k == "request-no-direction":
            pick(d["requests"] + d["notifications"]).pop("messageDirection")
        elif k == "bad-direction":
            pick(d["requests"] + d["notifications"])["messageDirection"] = "sideways"
        elif k == "sincetags-not-strings":
            pick(d["structures"])["sinceTags"] = [1, 2]
        elif k == "tuple-items-string":
            d["structures"][0]["properties"].append({"name": "vxTuple", "type": {"kind": "tuple", "items": "string"}})
        elif k == "struct-extra-key":
            pick(d["structures"])["colour"] = "red"
        elif k == "prop-extra-key":
            s = pick([s for s in d["structures"] if s["properties"]])
            pick(s["properties"])["colour"] = "red"
        elif k == "prop-no-type":
            s = pick([s for s in d["structures"] if s["properties"]])
            pick(s["properties"]).pop("type")
        elif k == "optional-not-bool":
            s = pick([s for s in d["structures"] if s["properties"]])
            pick(s["properties"])["optional"] = "yes"
        elif k == "enum-no-values":
            pick(d["enumerations"]).pop("values")
        elif k == "enum-bad-base":
            pick(d["enumerations"])["type"] = {"kind": "base", "name": "decimal"}
        elif k == "alias-no-type":
            pick(d["typeAliases"]).pop("type")
        elif k == "metadata-extra":
            d["metaData"]["generator"] = "x"
        elif k == "base-bad-name":
            d["structures"][0]["properties"].append({"name": "vxBase", "type": {"kind": "base", "name": "float"}})
        elif k == "top-extra-key":
            d["extensions"] = []
        elif k == "method-not-string":
            pick(d["requests"])["method"] = 7
        elif k == "no-structures":
            d.pop("structures")
        elif k == "struct-no-name":
            pick(d["structures"]).pop("name")
        elif k == "documentation-not-string":
            pick(d["structures"])["documentation"] = ["a"]
        return k, d

    return _s()


def gate_case(ctx: Ctx, kind: str, bad: dict, base: dict, plugin: str, position: int, counters: collections.Counter, via_cli: bool) -> None:
    """run the generator on a model list with `bad` at `position`; it must fail before any plugin runs, writing nothing."""
    if evolve.schema_valid(bad):
        raise HarnessError(f"violating edit {kind} is schema-valid")
    d = gen.scratch("lspverif-gate-")
    try:
        small_ext = {"metaData": {"version": "0"}, "requests": [], "notifications": [], "structures": [], "enumerations": [], "typeAliases": []}
        paths = []
        docs = [base, small_ext]
        docs.insert(position, bad) if position < 2 else docs.append(bad)
        if position == 0:
            docs = [bad, small_ext]
        elif position == 1:
            docs = [base, bad]
        else:
            docs = [base, small_ext, bad]
        for i, doc in enumerate(docs):
            p = os.path.join(d, f"m{i}.json")
            if not (doc is base and os.path.exists(p)):
                with open(p, "w") as f:
                    json.dump(doc, f)
            paths.append(p)
        out = os.path.join(d, "out")
        counters[f"gate:{plugin}:pos{position}:{'cli' if via_cli else 'main'}"] += 1
        # every other case under `python -O`: the gate is not an assertion
        optimised = (position + len(kind) + len(plugin)) % 2 == 1
        counters["gate:python -O" if optimised else "gate:python"] += 1
        case = {"kind": kind, "plugin": plugin, "position": position, "via": "cli" if via_cli else "main", "python -O": optimised}
        if via_cli:
            r = gen.run_generator(plugin, out, models=paths, hashseed=0, spelling="optimised" if optimised else "default")
            failed, plugin_ran = r.returncode != 0, ("Running plugin:" in r.stdout or "Plugin" in r.stdout and "completed" in r.stdout)
        else:
            code = (
                "import sys, importlib, os\n"
                f"sys.path.insert(0, {REPO!r})\n"
                "import generator.__main__ as gm\n"
                "calls = []\n"
                f"mod = importlib.import_module('generator.plugins.{plugin}')\n"
                "orig = mod.generate\n"
                "def spy(*a, **k):\n"
                "    calls.append(1)\n"
                "    return orig(*a, **k)\n"
                "mod.generate = spy\n"
                "try:\n"
                f"    gm.main(['--plugin', {plugin!r}, '--output-dir', {out!r}, '--test-dir', {os.path.join(out, '_tests')!r}, '--model'] + {paths!r})\n"
                "    print('RESULT returned', len(calls))\n"
                "except BaseException as e:\n"
                "    print('RESULT raised', len(calls), type(e).__name__)\n"
            )
            r = subprocess.run([gen.PY, "-B"] + (["-O"] if optimised else []) + ["-c", code], capture_output=True, text=True, timeout=600, cwd=REPO,
                               env={**os.environ, "PYTHONHASHSEED": "0", "PYTHONDONTWRITEBYTECODE": "1"})
            line = [ln for ln in r.stdout.splitlines() if ln.startswith("RESULT")]
            if not line:
                raise HarnessError(f"gate driver produced no result: {r.stderr[-300:]}")
            parts = line[-1].split()
            failed, plugin_ran = parts[1] == "raised", int(parts[2]) > 0
        written = []
        if os.path.isdir(out):
            for root, _, files in os.walk(out):
                if os.path.join(out, "_tests") in root:
                    continue   # the harness copy that the check itself puts there for the rust plugin
                written += [os.path.join(root, f) for f in files]
        if not failed:
            ctx.finding(("gate-passed", kind, plugin), f"schema-violating model ({kind}) at position {position}: generator succeeded", case)
        elif plugin_ran:
            ctx.finding(("plugin-ran-before-failure", kind, plugin), f"schema-violating model ({kind}): plugin code ran before the failure", case)
        if written:
            ctx.finding(("files-written", kind, plugin), f"schema-violating model ({kind}): {len(written)} files written", case)
    finally:
        shutil.rmtree(d, ignore_errors=True)


def run(ctx: Ctx) -> None:
    model = gmodel()
    base = load_doc(repo_path("generator", "lsp.json"))
    evaluations = 0
    distinct = set()
    counters: collections.Counter = collections.Counter()
    samples: List[Any] = []

    def h(x: Any) -> str:
        import hashlib
        return hashlib.sha256(json.dumps(x, sort_keys=True, default=repr).encode()).hexdigest()[:16]

    def check_lossless(doc: dict, edits: List[dict], label: str) -> Optional[Any]:
        nonlocal evaluations
        evaluations += 1
        counters[f"lossless:{label}"] += 1
        given = copy.deepcopy(doc)
        try:
            spec = model.LSPModel(**given)
        except Exception as e:
            import re
            msg = str(e)
            mk = re.search(r"'kind': '(\w+)'", msg)
            cause = f"type-kind:{mk.group(1)}" if ("Unknown LSP type" in msg and mk) else re.sub(r"\{.*\}|'[^']*'(?= object)", "..", msg)[:60]
            ctx.finding(("load-raises:" + type(e).__name__, "LSPModel", cause),
                        f"schema-valid document cannot be loaded: {msg[:200]}", {"edits": edits})
            if cause.startswith("type-kind:") and not label.endswith("(kinds replaced)"):
                # the rest of the document is still worth reading back: the same document with the two unloadable literal
                # kinds replaced by a base type
                def replaced(x: Any) -> Any:
                    if isinstance(x, dict):
                        if x.get("kind") in ("integerLiteral", "booleanLiteral"):
                            return {"kind": "base", "name": "string"}
                        return {k_: replaced(v_) for k_, v_ in x.items()}
                    if isinstance(x, list):
                        return [replaced(v_) for v_ in x]
                    return x
                counters["lossless:retried-without-literal-kinds"] += 1
                return check_lossless(replaced(doc), edits, label + "(kinds replaced)")
            return None
        changed = first_diff(doc, given)
        if changed:
            ctx.finding(("load-mutates-input", generalise(changed.split(":")[0]), label), f"LSPModel(**doc) altered the document: {changed}", {"edits": edits})
        rb = normalise(read_back(spec))
        want = normalise(doc)
        diff = first_diff(want, rb)
        if diff:
            ctx.finding(("not-lossless", generalise(diff.split(":")[0]), label), diff, {"edits": edits})
        if edits:
            distinct.add(h(edits))
            # "two loads of the same document compare equal" - for every generated document, not only the committed one
            try:
                again = model.LSPModel(**copy.deepcopy(doc))
                eq, ne = (spec == again), (spec != again)
                if eq is not True or ne is not False:
                    ctx.finding(("same-loads-unequal", label, "-"), "two loads of one generated document do not compare equal", {"edits": edits})
            except Exception as e:
                ctx.finding(("compare-raises:" + type(e).__name__, label, "-"), f"second load / comparison of a generated document: {e}", {"edits": edits})
            counters[f"second-load:{label}"] += 1
        return spec

    # (a) lossless: committed, evolved, extra mutations
    check_lossless(base, [], "committed")
    n_evo, n_extra, n_eq, n_gate = (6, 12, 40, 6) if ctx.quick else (60, 200, 600, 60)
    evolved_docs: List[Tuple[dict, List[dict]]] = []
    mini(evolve.evolved(base, 1, 6), n_evo, (ctx.seed, "C18", "evo"), lambda x: evolved_docs.append(x))
    for doc, edits in evolved_docs:
        check_lossless(doc, edits, "evolved")
    if evolved_docs:
        samples.append({"evolved_edits": evolved_docs[0][1][:3]})
    extra_docs: List[Tuple[dict, List[dict]]] = []
    mini(extra_mutations(base), n_extra, (ctx.seed, "C18", "extra"), lambda x: extra_docs.append(x))
    for doc, edits in extra_docs:
        check_lossless(doc, edits, "extra")
    if extra_docs:
        samples.append({"schema_directed_mutation": extra_docs[0][1]})

    # (b) merge = concatenation
    LISTS = ("requests", "notifications", "structures", "enumerations", "typeAliases")
    for doc, edits in evolved_docs:
        ext = {"metaData": {"version": "9.9"}}
        for k in LISTS:
            ext[k] = [x for x in doc[k] if x not in base[k]]
        if not evolve.schema_valid(ext):
            raise HarnessError("extension document is not schema-valid")
        for files in ([base, ext], [base, ext, ext], [ext, base]):
            pristine = copy.deepcopy(files)
            want = copy.deepcopy(pristine[0])
            for f in pristine[1:]:
                for k in LISTS:
                    want[k] = want[k] + copy.deepcopy(f[k])
            # the same parsed documents are loaded twice (a history of loads): the second load must see the
            # same documents, i.e. loading must not alter its inputs
            docs = copy.deepcopy(pristine)
            for attempt in (1, 2):
                evaluations += 1
                counters["merge"] += 1
                try:
                    spec = model.create_lsp_model(docs)
                except Exception as e:
                    ctx.finding(("merge-raises:" + type(e).__name__, "create_lsp_model", "-"), str(e)[:200], {"edits": edits})
                    break
                diff = first_diff(normalise(want), normalise(read_back(spec)))
                if diff:
                    ctx.finding(("merge-not-concatenation", generalise(diff.split(":")[0]), f"{len(files)} files, load #{attempt}"), diff, {"edits": edits})
                changed = first_diff(pristine, docs)
                if changed:
                    ctx.finding(("load-mutates-input", generalise(changed.split(":")[0]), f"{len(files)} files"),
                                f"create_lsp_model altered the documents it was given: {changed}", {"edits": edits})
                    break
            distinct.add(h([edits, len(files)]))

    # (c) equality
    evaluations += 1
    try:
        a, b = model.LSPModel(**copy.deepcopy(base)), model.LSPModel(**copy.deepcopy(base))
        if (a == b) is not True or (a != b) is not False:
            ctx.finding(("equal-loads-unequal", "LSPModel", "-"), "two loads of lsp.json do not compare equal", {})
    except Exception as e:
        ctx.finding((f"eq-raises:{type(e).__name__}", "LSPModel", "same-document"), f"comparing two loads of lsp.json raises: {e}", {})
        a = None
    foreign = [None, 0, "x", {}, [], object()]
    if a is not None:
        s0 = [s for s in a.structures if s.properties][0]
        nodes = [a, s0, s0.properties[0], s0.properties[0].type, a.enumerations[0],
                 a.enumerations[0].values[0], a.typeAliases[0], a.requests[0], a.notifications[0], a.metaData]
        for n in nodes:
            for f in foreign + [x for x in nodes if type(x) is not type(n)][:3]:
                evaluations += 1
                try:
                    if (n == f) is not False or (n != f) is not True:
                        ctx.finding(("foreign-equal", type(n).__name__, "-"), f"{type(n).__name__} == {f!r}", {})
                except Exception as e:
                    ctx.finding((f"eq-raises:{type(e).__name__}", type(n).__name__, "foreign"), f"{type(n).__name__} == {type(f).__name__}: {e}", {})

    def eq_case(x):
        nonlocal evaluations
        kind, d2 = x
        evaluations += 1
        counters[f"structural-edit:{kind}"] += 1
        distinct.add(h([kind, h(d2)]))
        try:
            m1 = model.LSPModel(**copy.deepcopy(base))
            m2 = model.LSPModel(**copy.deepcopy(d2))
        except Exception:
            return  # the edited document need not be loadable; equality is about loadable ones
        try:
            eq, ne = (m1 == m2), (m1 != m2)
        except Exception as e:
            ctx.finding((f"eq-raises:{type(e).__name__}", "LSPModel", "different-documents"), f"edit {kind}: comparison raises: {e}", {"edit": kind})
            return
        if eq is not False or ne is not True:
            ctx.finding(("different-loads-equal", kind, "-"), f"structural edit {kind}: models compare equal", {"edit": kind})

    for kind in STRUCTURAL_KINDS:  # every kind of structural edit, k generated instances each
        mini(structural_edit(base, kind), max(2, n_eq // len(STRUCTURAL_KINDS)), (ctx.seed, "C18", "eq", kind), eq_case)
    samples.append({"structural_edit_kinds": sorted(k.split(":", 1)[1] for k in counters if k.startswith("structural-edit:"))[:8]})

    # (d) gate
    gate_cases: List[Tuple[str, dict]] = []
    # standing cases: violations that the attrs loader alone would NOT reject (they exposed the once-vacuous gate)
    for fixed_kind in ("request-no-result", "sincetags-not-strings", "tuple-items-string"):
        mini(violating_edit(base, fixed_kind), 1, (ctx.seed, "C18", "gate", fixed_kind), lambda x: gate_cases.append(x))
    mini(violating_edit(base), n_gate, (ctx.seed, "C18", "gate"), lambda x: gate_cases.append(x))
    n_random = len(gate_cases)
    # the kinds of violation are a finite list: every kind once (a later example than the simplest one), for the python plugin
    for vk in VIOLATING_KINDS:
        got_: List[Tuple[str, dict]] = []
        mini(violating_edit(base, vk), 2, (ctx.seed, "C18", "gate-all", vk), lambda x: got_.append(x))
        gate_cases.append(got_[-1])
    plugins = ["python", "rust", "dotnet", "testdata"]
    jobs = []
    for i, (kind, bad) in enumerate(gate_cases):
        for j, plugin in enumerate(plugins):
            pos = (i + j) % 3
            if i >= n_random and plugin != "python":
                continue  # (the enumeration of all kinds runs through one plugin: the gate sits in front of all of them)
            if ctx.quick and plugin in ("dotnet", "testdata") and i % 3:
                continue  # the slow plugins on a third of the cases in the quick tier
            jobs.append((kind, bad, plugin, pos, (i % 5 == 0 and plugin == "python")))
    _GATE["base"] = base
    results = runner.pmap(_gate_job, jobs)
    for r in results:
        evaluations += 1
        counters.update(r["counters"])
        ctx.merge_worker(r)
    for kind, _ in gate_cases:
        distinct.add(h(["gate", kind]))
    samples.append({"violating_edit_kinds": sorted({k for k, _ in gate_cases})})
    # (e) the step from a model *file* to the document: the command reads the same model whatever the text encoding the
    #     platform would pick for open() - a JSON document is UTF-8 text (non-ASCII characters written raw or escaped)
    file_stats = file_level_loading(ctx, base)
    evaluations += file_stats["runs"]
    counters.update({f"file-level:{k}": v for k, v in file_stats.items()})
    ctx.coverage.update({
        "evaluations": evaluations, "distinct_nontrivial": len(distinct), "rule": RULE, "samples": samples,
        "case_counters": dict(counters), "exhaustive": False,
    })
    ctx.assumptions = [
        "'schema-valid' means valid against the MetaModel definition of lsp.schema.json (the file has no root $ref)",
        "read-back drops id_, None and the loader's default empty extends/mixins on both sides",
        "annotation-only differences are not required to make models unequal (the statement says structurally)",
        "a model file is UTF-8 JSON text (RFC 8259); the locale's preferred encoding is not part of the input (emulated with LC_ALL=C, PYTHONUTF8=0, PYTHONCOERCECLOCALE=0)",
    ]


def file_level_loading(ctx: Ctx, base: dict) -> Dict[str, int]:
    import subprocess
    from ..subject import REPO
    stats = collections.Counter()
    d = gen.scratch("lspverif-c18-files-")
    try:
        # a reduced document keeps the run short; its documentation strings contain non-ASCII characters
        from .c16 import submodel
        small = submodel(base, ["textDocument/hover", "textDocument/didOpen", "$/progress"])
        small["structures"][0]["documentation"] = (small["structures"][0].get("documentation") or "") + " caf\u00e9 \u2192 \U0001F600 \u00df"
        encodings = {"escaped": dict(ensure_ascii=True), "raw-utf8": dict(ensure_ascii=False)}
        paths = {}
        for tag, kw in encodings.items():
            paths[tag] = os.path.join(d, f"model-{tag}.json")
            with open(paths[tag], "w", encoding="utf-8") as f:
                json.dump(small, f, **kw)
        envs = {
            "default": {},
            # what open() without an explicit encoding does on a platform whose locale encoding is not UTF-8
            "locale-C": {"LC_ALL": "C", "LANG": "C", "PYTHONCOERCECLOCALE": "0", "PYTHONUTF8": "0"},
        }
        outputs = {}
        for ptag, path in list(paths.items()) + [("committed", None)]:
            for etag, extra in envs.items():
                out = os.path.join(d, f"out-{ptag}-{etag}")
                cmd = [gen.PY, "-B", "-m", "generator", "--plugin", "python", "--output-dir", out] + (["--model", path] if path else [])
                env = {k: v for k, v in os.environ.items() if k not in ("LC_ALL", "LANG", "LC_CTYPE", "PYTHONUTF8", "PYTHONCOERCECLOCALE", "PYTHONIOENCODING")}
                env.update(PYTHONPATH=REPO, PYTHONHASHSEED="0", PYTHONDONTWRITEBYTECODE="1", **extra)
                r = subprocess.run(cmd, cwd=REPO, env=env, capture_output=True, timeout=900)
                stats["runs"] += 1
                case = {"model_file": ptag, "environment": etag}
                if r.returncode != 0:
                    tail = (r.stderr or r.stdout).decode("utf-8", "replace").strip().splitlines()[-1:] or [""]
                    ctx.finding(("model-file-not-loaded", ptag, etag), f"`python -m generator --plugin python` on the {ptag} model file fails under environment {etag}: {tail[0][:200]}", case)
                    continue
                with open(os.path.join(out, "lsprotocol", "types.py"), "rb") as f:
                    outputs[(ptag, etag)] = f.read()
        # the order of several model files is the order on the command line (not the order of their names, sizes or dates):
        # the document cut in two, the first part in the file whose name sorts last
        lists = ("requests", "notifications", "structures", "enumerations", "typeAliases")
        first = {**{k: v for k, v in small.items() if k not in lists}, **{k: small[k][: len(small[k]) // 2] for k in lists}}
        second = {**{k: v for k, v in small.items() if k not in lists}, **{k: small[k][len(small[k]) // 2:] for k in lists}}
        second["metaData"] = {"version": "0.0.0-second-file"}
        pa, pb = os.path.join(d, "zz-first.json"), os.path.join(d, "aa-second.json")
        for path_, doc_ in ((pa, first), (pb, second)):
            with open(path_, "w", encoding="utf-8") as f:
                json.dump(doc_, f)
        os.utime(pb, (1, 1))   # ... and is the younger file
        out = os.path.join(d, "out-two-files")
        env = {k: v for k, v in os.environ.items()}
        env.update(PYTHONPATH=REPO, PYTHONHASHSEED="0", PYTHONDONTWRITEBYTECODE="1")
        # (both ways of naming several files: one option with two values, the option given twice)
        for spelled, margs in (("--model zz-first.json aa-second.json", ["--model", pa, pb]), ("--model zz-first.json --model aa-second.json", ["--model", pa, "--model", pb]),
                               ("-m zz-first.json -m aa-second.json --plugin python", None)):
            tag = "two-files" if margs and len(margs) == 3 else "two-files-option-repeated"
            cmd = [gen.PY, "-B", "-m", "generator", "--plugin", "python", "--output-dir", out] + margs if margs else \
                  [gen.PY, "-B", "-m", "generator", "-m", pa, "-m", pb, "--plugin", "python", "--output-dir", out]
            shutil.rmtree(out, ignore_errors=True)
            r = subprocess.run(cmd, cwd=REPO, env=env, capture_output=True, timeout=900)
            stats["runs"] += 1
            if r.returncode != 0:
                ctx.finding(("model-file-not-loaded", tag, "default"), f"the document cut into two model files ({spelled}) does not generate: " + (r.stderr or r.stdout).decode("utf-8", "replace").strip().splitlines()[-1][:200],
                            {"model_file": tag})
            else:
                with open(os.path.join(out, "lsprotocol", "types.py"), "rb") as f:
                    two = f.read()
                if outputs.get(("escaped", "default")) is not None and two != outputs[("escaped", "default")]:
                    ctx.finding(("model-files-order", tag, "default"),
                                f"`{spelled}` gives another types.py than the uncut document: the files were not merged in the order given (first file extended by the second, metaData of the first)",
                                {"model_file": tag})
        for ptag in list(paths) + ["committed"]:
            ref_key = ("escaped", "default") if ptag != "committed" else ("committed", "default")
            for etag in envs:
                got, ref = outputs.get((ptag, etag)), outputs.get(ref_key)
                if got is not None and ref is not None and got != ref:
                    ctx.finding(("model-file-read-differently", ptag, etag), f"the {ptag} model file under environment {etag} gives another types.py than {ref_key}: the document was not read as written",
                                {"model_file": ptag, "environment": etag})
    finally:
        shutil.rmtree(d, ignore_errors=True)
    return dict(stats)


_GATE: Dict[str, Any] = {}


def _gate_job(job) -> dict:
    kind, bad, plugin, pos, via_cli = job
    ctx = Ctx("C18", "quick", 0)
    counters: collections.Counter = collections.Counter()
    gate_case(ctx, kind, bad, _GATE["base"], plugin, pos, counters, via_cli)
    return {"violations": list(ctx.violations.values()), "known_hits": ctx.known_hits, "known_examples": ctx.known_examples, "counters": dict(counters)}


def replay(ctx: Ctx, path: str) -> int:
    run(ctx)
    return ctx.finish()
