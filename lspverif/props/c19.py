"""C19 — converters are independent of creation order, count, configuration and threads."""
from __future__ import annotations

import collections
import json
import os
import select
import signal
import sys
import threading
import time
import traceback
from typing import Any, Dict, List, Optional, Tuple

import hypothesis
from hypothesis import HealthCheck, Phase, settings, strategies as st
from hypothesis.stateful import RuleBasedStateMachine, invariant, precondition, rule, run_state_machine_as_test

from .. import runner
from ..hyp import mini
from ..runner import Ctx, HarnessError, derive_seed
from ..subject import repo_path, setup_sys_path

RULE = (
    "(A) schedules: each case forks a child from a pristine parent (package imported, no converter ever created); N in "
    "{2,3,4} threads call get_converter(); a sys.settrace hook makes every call into and every line of the package's hook module "
    "(first 9000 events per thread: the once-only forward-reference resolution and the start of hook registration) a yield point, and a harness-owned scheduler runs the Hypothesis-generated list of "
    "(thread, run length) segments (remainder sequential); oracle: no thread raises and every converter reproduces the "
    "battery outcomes of a sequentially created reference converter (computed in a separate fresh child). (B) histories "
    "(RuleBasedStateMachine, each history executed in a pristine forked process): create(fresh | Converter("
    "detailed_validation=b) | GenConverter | Converter | a user converter carrying its own int hook) / add_input / use / "
    "drop (a converter is forgotten and collected, so addresses are reused); "
    "invariant after every step: every non-customised converter gives, for every battery input, the outcome of an "
    "independent fresh converter (separate process), and every converter the outcome it gave before the latest step. "
    "Schedules may continue into each thread's *first use* (structure/unstructure of drawn battery inputs inside the schedule, "
    "yield points = lines of every module of the package; phase-relative segments stop a thread k yield points into its first "
    "use); what a thread observes there is compared with the sequential reference too. Histories also contain creations that are "
    "cut short (fail-create: an asynchronous exception at the n-th source line of the package or at the n-th call the package "
    "makes into a library, or a RecursionError with n frames of head-room): the next ordinary converter is compared on one "
    "small value of every structure; (E) dedicated histories put such a fault into the very first creation of the process. "
    "(D) every non-customised configuration against get_converter() on routed values of every union alternative. "
    "(C, thorough) real threads with a 1e-6 switch "
    "interval, fresh process per trial. non-trivial = schedule with >=1 switch inside the resolution window / history "
    "with >=2 converters of different configuration and a use between creations; distinct = the schedule / history"
)

CHILD_TIMEOUT = float(os.environ.get("LSPVERIF_CHILD_TIMEOUT", "120"))


def pkg():
    setup_sys_path()
    import lsprotocol.types as t  # noqa
    import lsprotocol._hooks as h  # noqa
    import lsprotocol.converters as c  # noqa
    return t, h, c


def pristine(t) -> bool:
    """no converter has been created in this process yet: the forward references of the generated classes are still
    unresolved (observed on the classes themselves, not on a private flag of the package)."""
    import typing
    import attrs
    ty = attrs.fields(t.Location).range.type
    return isinstance(ty, (str, typing.ForwardRef))


# ---- battery ------------------------------------------------------------------------------------
def fixed_battery() -> List[Tuple[str, Any]]:
    pos = {"line": 1, "character": 2}
    rng = {"start": pos, "end": {"line": 3, "character": 4}}
    return [
        ("Position", pos),
        ("Range", rng),
        ("Location", {"uri": "file:///a", "range": rng}),
        ("Hover", {"contents": {"kind": "markdown", "value": "x"}, "range": rng}),
        ("Hover", {"contents": ["a", {"language": "py", "value": "b"}]}),
        ("CompletionItem", {"label": "l", "kind": 3, "documentation": "d", "textEdit": {"range": rng, "newText": "n"}, "data": {"k": [1, None]}}),
        ("ServerCapabilities", {"textDocumentSync": 1, "hoverProvider": True, "declarationProvider": {"id": "i", "documentSelector": None},
                                "semanticTokensProvider": {"legend": {"tokenTypes": ["a"], "tokenModifiers": []}, "full": {"delta": True}}}),
        ("InitializeRequest", {"jsonrpc": "2.0", "id": 1, "method": "initialize", "params": {"processId": None, "rootUri": None, "capabilities": {}}}),
        ("WorkspaceSymbolResponse", {"jsonrpc": "2.0", "id": "x", "result": [{"name": "n", "kind": 1, "location": {"uri": "u"}, "data": 1}]}),
        ("CodeActionResponse", {"jsonrpc": "2.0", "id": 2, "result": [{"title": "t", "command": "c"}, {"title": "a", "kind": "quickfix"}]}),
        ("ProgressNotification", {"jsonrpc": "2.0", "method": "$/progress", "params": {"token": 1, "value": {"kind": "begin", "title": "t"}}}),
        ("WorkspaceEdit", {"documentChanges": [{"kind": "create", "uri": "u"}, {"textDocument": {"uri": "u", "version": None}, "edits": [{"range": rng, "newText": "", "annotationId": "a"}]}]}),
        ("SelectionRange", {"range": rng, "parent": {"range": rng}}),
        ("ParameterInformation", {"label": [1, 2]}),
        ("WorkspaceSymbolResponse", {"jsonrpc": "2.0", "id": 3, "result": [{"name": "n", "kind": 1, "location": {"uri": "u"}}]}),
        ("WorkspaceSymbolResponse", {"jsonrpc": "2.0", "id": 3, "result": [
            {"name": "a", "kind": 1, "location": {"uri": "u", "range": rng}}, {"name": "b", "kind": 2, "location": {"uri": "u"}}]}),
        ("DocumentSymbolResponse", {"jsonrpc": "2.0", "id": 4, "result": [{"name": "n", "kind": 1, "location": {"uri": "u", "range": rng}}]}),
        ("DefinitionResponse", {"jsonrpc": "2.0", "id": 5, "result": [{"targetUri": "u", "targetRange": rng, "targetSelectionRange": rng}]}),
        ("TextDocumentEdit", {"textDocument": {"uri": "u", "version": 1}, "edits": [{"range": rng, "snippet": {"kind": "snippet", "value": "v"}, "annotationId": "a"}]}),
        ("TextDocumentRegistrationOptions", {"documentSelector": [{"notebook": "nb", "language": "py"}, {"scheme": "file"}, {"pattern": "*"}]}),
        # undeclared keys (ignored by every non-customised converter)
        ("Hover", {"contents": "x", "range": dict(rng, extra=1), "futureField": {"a": 1}}),
        ("CompletionItem", {"label": "l", "x-vendor": True, "textEdit": {"range": rng, "newText": "n", "more": None}}),
        ("InitializeRequest", {"jsonrpc": "2.0", "id": 1, "method": "initialize", "trace-id": "t",
                               "params": {"processId": None, "rootUri": None, "capabilities": {"vendor": {}}, "zz": 0}}),
        # null-versus-omitted decisions (per-class serialisation functions built at first use)
        ("TextDocumentRegistrationOptions", {"documentSelector": None}),
        ("ShutdownResponse", {"jsonrpc": "2.0", "id": 1, "result": None}),
        ("ExitNotification", {"jsonrpc": "2.0", "method": "exit"}),
        ("CreateFile", {"kind": "create", "uri": "u"}),
        ("VersionedTextDocumentIdentifier", {"uri": "u", "version": 0}),
        ("OptionalVersionedTextDocumentIdentifier", {"uri": "u", "version": None}),
        # one quantity in two spellings, custom values of open integer enumerations among them (caches keyed by value)
        ("FileSystemWatcher", {"globPattern": "**/*.py", "kind": 7.0}),
        ("FileSystemWatcher", {"globPattern": "**/*.py", "kind": 7}),
        ("CompletionItem", {"label": "l", "kind": 99.0}),
        ("CompletionItem", {"label": "l", "kind": 99}),
        ("CompletionItem", {"label": "l", "kind": True}),
        ("CompletionItem", {"label": "l", "kind": 1}),
        # rejected inputs
        ("Position", {"line": -1, "character": 0}),
        ("Position", {"line": 1}),
        ("Range", {"start": pos}),
        ("MarkupContent", {"kind": "html", "value": "x"}),
        ("CreateFile", {"kind": "rename", "uri": "u"}),
        ("Hover", {"contents": 5}),
        ("InitializeRequest", {"jsonrpc": "2.0", "method": "initialize"}),
    ]


def outcome(conv, t, name: str, j: Any) -> List[Any]:
    T = getattr(t, name)
    try:
        obj = conv.structure(j, T)
    except Exception:
        return ["raised"]
    try:
        return ["ok", json.dumps(json.loads(json.dumps(conv.unstructure(obj, T))), sort_keys=True)]
    except Exception as e:
        return ["unstructure-raised", type(e).__name__]


def shape(o: Any, depth: int = 0) -> Any:
    """the classes of a structured value, recursively (two converters that serialise alike may still have built different
    objects: a nested object left as a raw dict, another alternative of a union with the same wire form)."""
    import enum
    import attrs
    if depth > 40:
        return "..."
    if attrs.has(type(o)):
        return [type(o).__name__, {a.name: shape(getattr(o, a.name), depth + 1) for a in attrs.fields(type(o)) if getattr(o, a.name) is not None}]
    if isinstance(o, enum.Enum):
        return ["enum", type(o).__name__]
    if isinstance(o, dict):
        return {str(k): shape(v, depth + 1) for k, v in o.items()}
    if isinstance(o, (list, tuple)):
        return [type(o).__name__] + [shape(v, depth + 1) for v in o]
    return type(o).__name__


def outcome_with_shape(conv, t, name: str, j: Any) -> List[Any]:
    out = outcome(conv, t, name, j)
    if out[0] == "ok":
        try:
            out = out + [json.dumps(shape(conv.structure(j, getattr(t, name))), sort_keys=True)]
        except Exception:
            pass
    return out


# ---- (A) controlled schedules in a forked child -----------------------------------------------------
class Scheduler:
    def __init__(self, n: int, segments: List[Tuple[int, int]], grace: float = 0.25):
        self.n = n
        self.segments = list(segments)
        self.cv = threading.Condition()
        self.current: Optional[int] = None
        self.remaining = 0
        self.count_use_only = False   # the grant counts only yield points of the thread's first-use phase
        self.waiting: set = set()
        self.done: set = set()
        self.grace = grace
        self.points = collections.Counter()
        self.switches = 0
        self.trace: List[Tuple[int, int]] = []
        self.blocked_skips = 0

    def yield_point(self, tid: int, in_use: bool = False) -> None:
        with self.cv:
            self.points[tid] += 1
            if self.current == tid:
                if in_use or not self.count_use_only:
                    self.remaining -= 1
                if self.remaining > 0:
                    return
                self.current = None
            self.waiting.add(tid)
            self.cv.notify_all()
            while self.current != tid:
                self.cv.wait(0.05)
            self.waiting.discard(tid)

    def finished(self, tid: int) -> None:
        with self.cv:
            self.done.add(tid)
            if self.current == tid:
                self.current = None
            self.cv.notify_all()

    def control(self) -> None:
        """runs in the main thread of the child until every worker is done."""
        seg = 0
        last_tid = None
        while True:
            with self.cv:
                if len(self.done) == self.n:
                    return
                if self.current is not None and self.current not in self.done:
                    # a thread holds the grant: wait for it to park, finish, or block
                    granted = self.current
                    t0 = time.time()
                    while self.current == granted and granted not in self.done and time.time() - t0 < self.grace:
                        self.cv.wait(0.01)
                    if self.current == granted and granted not in self.done:
                        # blocked outside our yield points (e.g. on a lock): let somebody else run
                        self.blocked_skips += 1
                        self.current = None
                    continue
                runnable = sorted(self.waiting - self.done)
                if not runnable:
                    self.cv.wait(0.01)
                    continue
                choice = None
                use_only = False
                while seg < len(self.segments):
                    tid, length = self.segments[seg][0], self.segments[seg][1]
                    use_only = len(self.segments[seg]) > 2 and bool(self.segments[seg][2])
                    tid %= self.n
                    seg += 1
                    if tid in runnable:
                        choice = (tid, max(1, length))
                        break
                if choice is None:
                    choice = (runnable[0], 10**9)  # remainder: sequential, lowest thread first
                    use_only = False
                self.count_use_only = use_only
                if last_tid is not None and choice[0] != last_tid and last_tid not in self.done:
                    self.switches += 1  # a switch while the previous thread is still inside its first call
                last_tid = choice[0]
                self.trace.append(choice)
                self.current, self.remaining = choice
                self.cv.notify_all()


def child_schedule(n: int, segments: List[Tuple[int, int]], battery: List[Tuple[str, Any]], use: Optional[List[int]] = None,
                   kinds: Optional[List[str]] = None) -> dict:
    """use: indices of battery inputs that every thread also runs through its new converter *inside* the schedule (the
    first structure/unstructure of a class builds per-class functions, and may fill lazily built tables of the package)."""
    t, h, c = pkg()
    # yield points: every call into, and every line of, the package's hook module during get_converter() - whatever the
    # functions are called (a refactoring of the first-use path must not blind the scheduler); capped per thread, so the
    # per-converter registration code that follows the once-only part runs freely
    hooks_file = h.__file__
    pkg_dir = os.path.dirname(os.path.abspath(hooks_file))
    CAP = 9000
    USE_CAP = 2500
    sched = Scheduler(n, segments)
    results: Dict[int, Any] = {}
    in_thread: Dict[int, List[Any]] = {}   # what each thread itself observed during its first use
    tls = threading.local()

    def tracer(frame, event, arg):
        if event == "call" and tls.count < tls.cap and (
                frame.f_code.co_filename == hooks_file or (tls.using and os.path.dirname(frame.f_code.co_filename) == pkg_dir)):
            tls.count += 1
            sched.yield_point(tls.tid, tls.using)
            return line_tracer
        return None

    def line_tracer(frame, event, arg):
        if event == "line" and tls.count < tls.cap:
            tls.count += 1
            sched.yield_point(tls.tid, tls.using)
        return line_tracer

    def worker(tid: int) -> None:
        tls.tid = tid
        tls.count = 0
        tls.cap = CAP
        tls.using = False
        sys.settrace(tracer)
        try:
            conv = make_converter(c, kinds[tid % len(kinds)]) if kinds else c.get_converter()
            if use:
                # first use inside the schedule: yield points are the lines of every module of the package
                tls.using, tls.count, tls.cap = True, 0, USE_CAP
                for bi in use:
                    name, j = battery[bi % len(battery)]
                    in_thread.setdefault(tid, []).append([bi % len(battery), outcome(conv, t, name, j)])
            sys.settrace(None)
            results[tid] = ("ok", conv)
        except BaseException as e:
            sys.settrace(None)
            results[tid] = ("raised", f"{type(e).__name__}: {e}", traceback.format_exc()[-400:])
        finally:
            sched.finished(tid)

    threads = [threading.Thread(target=worker, args=(i,), daemon=True) for i in range(n)]
    for th in threads:
        th.start()
    sched.control()
    for th in threads:
        th.join(5)
    out: Dict[str, Any] = {"raised": [], "outcomes": {}, "points": dict(sched.points), "switches": sched.switches,
                           "trace": sched.trace[:12], "blocked_skips": sched.blocked_skips,
                           "resolved_flag": not pristine(t), "in_thread": {str(k): v for k, v in in_thread.items()}}
    for tid in range(n):
        r = results.get(tid)
        if r is None:
            out["raised"].append([tid, "thread did not finish", ""])
        elif r[0] == "raised":
            out["raised"].append([tid, r[1], r[2]])
        else:
            out["outcomes"][str(tid)] = [outcome(r[1], t, name, j) for name, j in battery]
    return out


def in_child(fn, *args, timeout: float = CHILD_TIMEOUT) -> Optional[dict]:
    """fork; run fn in the child; JSON result through a pipe.  None = timed out (inconclusive)."""
    r, w = os.pipe()
    pid = os.fork()
    if pid == 0:
        code = 0
        try:
            os.close(r)
            try:
                res = fn(*args)
                payload = json.dumps({"ok": res})
            except BaseException as e:
                payload = json.dumps({"error": f"{type(e).__name__}: {e}", "tb": traceback.format_exc()[-800:]})
                code = 3
            with os.fdopen(w, "w") as f:
                f.write(payload)
        finally:
            os._exit(code)
    os.close(w)
    data = b""
    deadline = time.time() + timeout
    with os.fdopen(r, "rb") as f:
        while True:
            left = deadline - time.time()
            if left <= 0:
                os.kill(pid, signal.SIGKILL)
                os.waitpid(pid, 0)
                return None
            ready, _, _ = select.select([f], [], [], min(left, 1.0))
            if ready:
                chunk = f.read()
                data += chunk
                break
    os.waitpid(pid, 0)
    if not data:
        return None
    res = json.loads(data.decode())
    if "error" in res:
        raise HarnessError(f"child failed: {res['error']}\n{res.get('tb')}")
    return res["ok"]


# every way of obtaining a converter that the property quantifies over: fresh, or built on a user-supplied cattrs converter -
# of any configuration and any provenance (a plain one, one that already carries the hooks, a copy of a hooked one)
GROUP = {
    "fresh": "DV_TRUE", "Converter(dv=True)": "DV_TRUE", "GenConverter()": "DV_TRUE", "Converter()": "DV_TRUE",
    "rehook": "DV_TRUE", "copy()": "DV_TRUE",
    # converters the user configured with cattrs' own strategies before handing them in (predicates that match unions)
    "preconf-json": "DV_TRUE", "union-passthrough": "DV_TRUE", "preconf-json(dv=False)": "DV_FALSE",
    "Converter(dv=False)": "DV_FALSE", "copy(dv=False)": "DV_FALSE", "copy-of-user(dv=False)": "DV_FALSE",
    "custom-forbid-extra": "FORBID", "copy(forbid-extra)": "FORBID",
    "custom-int-hook": "CUSTOM",
}


def flag_kinds(c) -> List[str]:
    """options of get_converter() itself, as far as its signature shows them (boolean keyword parameters): a converter made
    with a non-default option is a customised one - and must not alter the others either."""
    import inspect
    out = []
    try:
        params = list(inspect.signature(c.get_converter).parameters.values())[1:]
    except (TypeError, ValueError):
        return out
    for p_ in params:
        if isinstance(p_.default, bool):
            out.append(f"flag:{p_.name}={not p_.default}")
    return out


def make_converter(c, kind: str):
    import cattrs
    if kind == "fresh":
        return c.get_converter()
    if kind == "Converter(dv=True)":
        return c.get_converter(cattrs.Converter(detailed_validation=True))
    if kind == "Converter(dv=False)":
        return c.get_converter(cattrs.Converter(detailed_validation=False))
    if kind == "GenConverter()":
        return c.get_converter(cattrs.GenConverter())
    if kind == "Converter()":
        return c.get_converter(cattrs.Converter())
    if kind == "rehook":
        return c.get_converter(c.get_converter())
    if kind == "preconf-json":
        from cattrs.preconf.json import make_converter as mk
        return c.get_converter(mk())
    if kind == "preconf-json(dv=False)":
        from cattrs.preconf.json import make_converter as mk
        return c.get_converter(mk(detailed_validation=False))
    if kind == "union-passthrough":
        from typing import Union
        from cattrs.strategies import configure_union_passthrough
        base = cattrs.Converter()
        configure_union_passthrough(Union[str, int, float, bool, None], base)
        return c.get_converter(base)
    if kind == "copy()":
        return c.get_converter(c.get_converter().copy())
    if kind == "copy(dv=False)":
        return c.get_converter(c.get_converter().copy(detailed_validation=False))
    if kind == "copy-of-user(dv=False)":
        return c.get_converter(c.get_converter(cattrs.Converter()).copy(detailed_validation=False))
    if kind == "custom-forbid-extra":
        return c.get_converter(cattrs.Converter(forbid_extra_keys=True))   # a user's stricter configuration
    if kind == "copy(forbid-extra)":
        return c.get_converter(c.get_converter().copy(forbid_extra_keys=True))
    if kind == "custom-int-hook":
        base = cattrs.Converter()
        base.register_structure_hook(int, lambda v, _: int(v) + 1000)   # a user's own customisation
        return c.get_converter(base)
    if kind.startswith("flag:"):
        name, val = kind[5:].split("=")
        return c.get_converter(**{name: val == "True"})
    raise ValueError(kind)


def outcome_detailed(conv, t, name: str, j: Any) -> List[Any]:
    """as outcome(), plus the class of the exception: converters of one configuration raise alike"""
    T = getattr(t, name)
    try:
        obj = conv.structure(j, T)
    except Exception as e:
        return ["raised", type(e).__name__]
    try:
        return ["ok", json.dumps(json.loads(json.dumps(conv.unstructure(obj, T))), sort_keys=True)]
    except Exception as e:
        return ["unstructure-raised", type(e).__name__]


def child_reference(battery: List[Tuple[str, Any]]) -> dict:
    t, h, c = pkg()
    import cattrs
    conv = c.get_converter()
    refs = {"DV_TRUE": conv, "DV_FALSE": c.get_converter(cattrs.Converter(detailed_validation=False)),
            "FORBID": c.get_converter(cattrs.Converter(forbid_extra_keys=True))}
    # evaluated last input first: what a converter gives for an input does not depend on what went through the package before
    order = list(range(len(battery)))[::-1]
    outs = {i: outcome(conv, t, battery[i][0], battery[i][1]) for i in order}
    by_group = {}
    for g, cv in refs.items():
        og = {i: outcome_detailed(cv, t, battery[i][0], battery[i][1]) for i in order}
        by_group[g] = [og[i] for i in range(len(battery))]
    return {"outcomes": [outs[i] for i in range(len(battery))], "by_group": by_group}


def _work_sched(args) -> dict:
    shard, seed, n_cases = args
    t, h, c = pkg()
    if not pristine(t):
        raise HarnessError("parent is not pristine: forward references already resolved")
    ctx = Ctx("C19", "quick", seed)
    battery = fixed_battery()
    ref = in_child(child_reference, battery)
    if ref is None:
        raise HarnessError("reference child timed out")
    stats = collections.Counter()
    samples: List[Any] = []
    distinct = set()
    seg = st.tuples(st.integers(0, 3), st.one_of(st.integers(1, 40), st.integers(1, 4000)))
    use_s = st.one_of(st.just([]), st.lists(st.integers(0, len(battery) - 1), min_size=1, max_size=6))
    strat = st.tuples(st.integers(2, 4), st.lists(seg, min_size=1, max_size=10), use_s)
    # phase-relative schedules: thread a is stopped k yield points into its *first use* (whatever its creation took), the
    # others then run their creation and first use to the end, a resumes
    use1 = st.lists(st.integers(0, len(battery) - 1), min_size=1, max_size=6)
    targeted = st.tuples(st.integers(2, 3), st.integers(0, 2), st.one_of(st.integers(1, 60), st.integers(1, 2400)), st.lists(seg, max_size=3), use1).map(
        lambda x: (x[0], [(x[1], x[2], 1), ((x[1] + 1) % x[0], 10**6)] + [tuple(s) for s in x[3]], x[4]))
    # ... and: the first creator is stopped k yield points into its *creation* (anywhere in it), the next thread then runs
    # its creation and its first use to the end
    sensitive = [i for i, (n_, _) in enumerate(battery) if n_ in ("TextDocumentRegistrationOptions", "ShutdownResponse", "ExitNotification", "CreateFile",
                                                                   "VersionedTextDocumentIdentifier", "OptionalVersionedTextDocumentIdentifier", "WorkspaceSymbolResponse")]
    targeted2 = st.tuples(st.integers(2, 3), st.integers(0, 2), st.one_of(st.integers(1, 6500), st.integers(3000, 6000)), use1).map(
        lambda x: (x[0], [(x[1], x[2]), ((x[1] + 1) % x[0], 10**6)], x[3] + sensitive))
    strat = st.one_of(strat, targeted, targeted2, targeted2)
    # the threads need not ask for the same kind of converter
    thread_kinds = PLAIN_KINDS + flag_kinds(c) * 3 + ["custom-forbid-extra"]
    kinds_s = st.one_of(st.just([]), st.lists(st.sampled_from(thread_kinds), min_size=4, max_size=4))
    strat = st.tuples(strat, kinds_s).map(lambda x: tuple(x[0]) + (x[1],))

    def one(x):
        n, segments, use, kinds = (tuple(x) + ([], []))[:4]
        res = in_child(child_schedule, n, segments, battery, use, kinds or None)
        stats["cases"] += 1
        if use:
            stats["cases_with_first_use_in_threads"] += 1
        if kinds and len(set(kinds[:n])) > 1:
            stats["cases_with_mixed_kinds"] += 1
        case = {"threads": n, "segments": [list(s) for s in segments], "use": list(use), "kinds": list(kinds)}
        judged = lambda tid: not kinds or not customised(kinds[int(tid) % len(kinds)])   # noqa: E731
        if res is None:
            stats["inconclusive_timeouts"] += 1
            return
        if res["switches"] >= 1:
            stats["nontrivial"] += 1
            distinct.add(json.dumps(case))
        stats["yield_points"] += sum(res["points"].values())
        stats["blocked_skips"] += res["blocked_skips"]
        if len(samples) < 2:
            samples.append({"threads": n, "segments": case["segments"], "executed": res["trace"], "yield_points": res["points"]})
        for tid, msg, tb in res["raised"]:
            import re
            norm = re.sub(r"\d+", "N", msg)[:80]
            ctx.finding(("first-use-raises", "get_converter", norm), f"thread {tid} of {n}: {msg}; schedule {case['segments']}", dict(case, error=msg, tb=tb))
        for tid, seen in res.get("in_thread", {}).items():
            if not judged(tid):
                continue
            for bi, got in seen:
                if got != ref["outcomes"][bi]:
                    ctx.finding(("converter-differs", battery[bi][0], "during-concurrent-first-use"),
                                f"thread {tid}, inside the schedule: {battery[bi][0]} {battery[bi][1]!r} -> {got} but sequential reference {ref['outcomes'][bi]}", case)
        for tid, outs in res["outcomes"].items():
            if judged(tid) and outs != ref["outcomes"]:
                k = next(i for i, (a, b) in enumerate(zip(outs, ref["outcomes"])) if a != b)
                ctx.finding(("converter-differs", battery[k][0], "after-concurrent-first-use"),
                            f"thread {tid}: {battery[k][0]} {battery[k][1]!r} -> {outs[k]} but sequential reference {ref['outcomes'][k]}", case)

    if shard == 0:
        d = os.path.join(runner.VERIF, "regress", "C19")
        for name in sorted(os.listdir(d)) if os.path.isdir(d) else []:
            with open(os.path.join(d, name)) as f:
                cs = json.load(f)["case"]
            one((cs["threads"], [tuple(s) for s in cs["segments"]], cs.get("use", []), cs.get("kinds", [])))
            stats["regress_schedules"] += 1
    mini(strat, n_cases, (seed, "C19", "sched", shard), one)
    # options of get_converter() (if its signature has any): a thread that works with an optioned converter is stopped inside
    # its first use while an ordinary thread runs the whole battery, rejected inputs included
    for flag in flag_kinds(c):
        everything = list(range(len(battery)))
        mini(st.tuples(st.one_of(st.integers(1, 120), st.integers(1, 1500)), st.sampled_from(PLAIN_KINDS), st.lists(st.integers(0, len(battery) - 1), min_size=2, max_size=5)),
             max(2, n_cases // 2), (seed, "C19", "sched-flag", shard, flag),
             lambda x: one((2, [(0, x[0], 1), (1, 10**6)], x[2] + everything, [flag, x[1]])))
        stats["option_schedules"] += max(2, n_cases // 2)
    return {"violations": list(ctx.violations.values()), "known_hits": ctx.known_hits, "known_examples": ctx.known_examples,
            "stats": dict(stats), "samples": samples, "distinct": list(distinct), "kind": "sched"}


# ---- (B) creation histories ---------------------------------------------------------------------------
CONFIGS = list(GROUP)
CUSTOMISED = tuple(k for k, g in GROUP.items() if g in ("CUSTOM", "FORBID"))
PLAIN_KINDS = [k for k in CONFIGS if k not in CUSTOMISED]


def customised(kind: str) -> bool:
    return kind in CUSTOMISED or kind.startswith("flag:") or kind.startswith("customised:")


def child_history(ops: List[Any], fixed: List[Tuple[str, Any]], reference: List[Any], wide: Optional[list] = None, by_group: Optional[dict] = None) -> dict:
    """executes a creation history in a pristine process; invariants are evaluated after every step."""
    t, h, c = pkg()
    import cattrs
    convs: List[Tuple[str, Any]] = []
    battery: List[Tuple[str, Any]] = list(fixed)
    memo: Dict[int, List[Any]] = {}
    findings: List[Any] = []
    faults: List[Any] = []
    evaluations = 0

    def make(kind: str):
        return make_converter(c, kind)

    pending_wide = False
    for step, op in enumerate(ops):
        if op[0] == "create":
            try:
                convs.append((op[1], make(op[1])))
            except Exception as e:
                findings.append([["create-raises", "get_converter", op[1]], f"{type(e).__name__}: {e}", step])
                continue
            if pending_wide and wide and not customised(op[1]):
                # the first ordinary converter after a cut-short creation: one small value of every structure
                pending_wide = False
                wb, wref = wide
                for (name, j), ref in zip(wb, wref):
                    evaluations += 1
                    got = outcome(convs[-1][1], t, name, j)
                    if got != ref:
                        findings.append([["converter-differs-after-failed-creation", name, op[1]],
                                         f"{name} {json.dumps(j)[:120]}: the converter created after a cut-short creation gives {str(got)[:120]}, an independent fresh converter {str(ref)[:120]}", step])
                        break
        elif op[0] == "fail-create":
            # a creation that is cut short: an asynchronous exception (as Ctrl-C or a signal-driven timeout raise it) at the
            # n-th source line executed inside the package, or too little stack left. Whatever it leaves behind, the
            # converters created afterwards are ordinary converters.
            conv, failed = faulty_create(c, make, op[1], op[2], op[3])
            faults.append([op[1], op[2], bool(failed)])
            pending_wide = pending_wide or bool(failed)
            if conv is not None:
                convs.append((op[3], conv))
        elif op[0] == "fail-use" and convs:
            # a use that is cut short by an asynchronous exception (the first use of a class builds per-class functions):
            # the same converter is an ordinary converter afterwards. The input comes from the wide battery (one value per
            # structure), so that it is a class this converter has not met yet - the step invariant has long warmed the others
            label, conv = convs[op[1] % len(convs)]
            if wide:
                wi = op[2] % len(wide[0])
                name, j = wide[0][wi]
            else:
                wi, (name, j) = None, battery[op[2] % len(battery)]
            _, failed = faulty_call(c, lambda: outcome(conv, t, name, j), "interrupt", op[3])
            faults.append(["use", op[3], bool(failed)])
            if wi is not None and not customised(label):
                evaluations += 1
                again = outcome(conv, t, name, j)
                if again != wide[1][wi]:
                    findings.append([["converter-differs-after-interrupted-use", name, label],
                                     f"{name} {json.dumps(j)[:120]}: after a first use cut short at fault point {op[3]} the same converter gives {str(again)[:120]}, an independent fresh converter {str(wide[1][wi])[:120]}", step])
            conv = label = None
        elif op[0] == "add_input":
            battery.append((op[1], op[2]))
        elif op[0] == "drop" and convs:
            # forget a converter (and let the collector reclaim it): later converters may reuse its address
            import gc
            i = op[1] % len(convs)
            convs.pop(i)
            memo = {(k if k < i else k - 1): v for k, v in memo.items() if k != i}
            conv = label = None   # loop variables of earlier steps must not keep the dropped converter alive
            gc.collect()
        elif op[0] == "use" and convs:
            label, conv = convs[op[1] % len(convs)]
            name, j = battery[op[2] % len(battery)]
            outcome(conv, t, name, j)
        elif op[0] == "customise" and convs:
            # the holder of one converter makes it its own (registers a hook, switches to strict keys): from here on that
            # converter is a customised one - and none of the others is
            i = op[1] % len(convs)
            label, conv = convs[i]
            try:
                if op[2] == "int-hook":
                    conv.register_structure_hook(int, lambda v, _: int(v) + 1000)
                elif op[2] == "forbid-extra":
                    conv.forbid_extra_keys = True
                    # cattrs reads the switch when it builds a per-class function and rebuilds those whenever its dispatch
                    # cache is dropped (any registration, the first mapping type it meets...): a registration right away
                    # makes the switch take effect now - not at some later step, where it would look like the effect of
                    # whatever else happened in that step
                    conv.register_structure_hook(type("_Flush", (), {}), lambda v, _: v)
                else:
                    conv.register_unstructure_hook(t.Position, lambda p_: {"line": -1, "character": -1})
            except Exception:
                pass
            convs[i] = ("customised:" + label, conv)
            memo.pop(i, None)
            conv = label = None
        # invariant
        for idx, (label, conv) in enumerate(convs):
            outs = [outcome(conv, t, name, j) for name, j in battery]
            evaluations += len(outs)
            grp = GROUP.get(label)
            if by_group and grp in by_group:
                # converters of one configuration behave alike whatever their provenance: same result, same class of exception
                det = [outcome_detailed(conv, t, name, j) for name, j in battery]
                gref = by_group[grp][: len(det)]
                if det != gref:
                    k = next(i for i, (a, b) in enumerate(zip(det, gref)) if a != b)
                    findings.append([["converter-differs-within-configuration", battery[k][0], label],
                                     f"{battery[k][0]} {json.dumps(battery[k][1])[:150]}: converter #{idx} ({label}) gives {det[k]}, a directly built converter of that configuration {gref[k]}", step])
            if not customised(label):
                ref = reference[: len(outs)]
                if outs != ref:
                    k = next(i for i, (a, b) in enumerate(zip(outs, ref)) if a != b)
                    findings.append([["converter-differs", battery[k][0], label],
                                     f"{battery[k][0]} {json.dumps(battery[k][1])[:150]}: converter #{idx} ({label}) gives {outs[k]}, an independent fresh converter {ref[k]}", step])
            before = memo.get(idx)
            if before is not None and outs[: len(before)] != before:
                k = next(i for i, (a, b) in enumerate(zip(outs, before)) if a != b)
                findings.append([["behaviour-changed", battery[k][0], label],
                                 f"converter #{idx} ({label}) changed its outcome for {battery[k][0]} at step {step} ({op[:2]})", step])
            memo[idx] = outs
    return {"findings": findings[:20], "evaluations": evaluations, "faults": faults}


class Injected(BaseException):
    """stands for KeyboardInterrupt / an exception raised by a signal handler"""


def faulty_create(c, make, mode: str, n: int, kind: str):
    """-> (converter or None, the injected failure or None)"""
    return faulty_call(c, lambda: make(kind), mode, n)


def faulty_call(c, fn, mode: str, n: int):
    """-> (result or None, the injected failure or None)"""
    import inspect
    pkg_dir = os.path.dirname(os.path.abspath(c.__file__))
    if mode == "interrupt":
        count = [0]

        def hit() -> None:
            count[0] += 1
            if count[0] == n:
                raise Injected()

        def line_tracer(frame, event, arg):
            if event == "line":
                hit()
            return line_tracer

        def in_pkg(frame) -> bool:
            return frame is not None and os.path.dirname(frame.f_code.co_filename) == pkg_dir

        def tracer(frame, event, arg):
            # fault points: every source line of the package, and every call the package makes into a library
            # (the exception then reaches the package as if the callee had raised it)
            if event == "call":
                if in_pkg(frame):
                    return line_tracer
                if in_pkg(frame.f_back):
                    hit()
            return None

        sys.settrace(tracer)
        try:
            conv = fn()
            return conv, None
        except Injected as e:
            return None, e
        finally:
            sys.settrace(None)
    else:  # "stack": n frames of head-room
        old = sys.getrecursionlimit()
        depth = len(inspect.stack(0))
        try:
            sys.setrecursionlimit(depth + 4 + n)
            try:
                conv = fn()
                return conv, None
            except RecursionError as e:
                return None, e
        finally:
            sys.setrecursionlimit(old)


def _work_hist(args) -> dict:
    shard, seed, examples, steps = args
    t, h, c = pkg()
    if not pristine(t):
        raise HarnessError("history worker is not pristine")
    ctx = Ctx("C19", "quick", seed)
    stats = collections.Counter()
    histories: List[Any] = []
    from .. import tvgen
    from ..refmodel import Model, load_doc
    model = Model(load_doc(repo_path("generator", "lsp.json")))
    objects = tvgen.Objects(model)
    roots = [("struct", n) for n in model.structs]
    for kind_, msg_ in model.messages():   # message envelopes reach the result/params hooks
        roots.append(("msg", kind_, msg_["method"]))
        if kind_ == "request":
            roots.append(("msg", "response", msg_["method"]))
    fixed = fixed_battery()

    def type_name(root: tuple) -> str:
        if root[0] == "struct":
            return root[1]
        kind_, msg_ = objects.message(root[2])
        req, resp = model.message_class_names(kind_, msg_)
        return resp if root[1] == "response" else req

    wide_battery = wide_battery_for(seed)
    wref = in_child(child_reference, wide_battery)
    if wref is None:
        raise HarnessError("reference child for the wide battery timed out")
    wide = [wide_battery, wref["outcomes"]]

    class Hist(RuleBasedStateMachine):
        def __init__(self):
            super().__init__()
            self.ops: List[Any] = []
            self.n_inputs = 0

        @rule(kind=st.sampled_from(CONFIGS))
        def create(self, kind):
            self.ops.append(["create", kind])

        @precondition(lambda self: sum(o[0] == "fail-create" for o in self.ops) < 3)
        @rule(mode=st.sampled_from(["interrupt", "interrupt", "stack"]), kind=st.sampled_from(PLAIN_KINDS),
              n=st.one_of(st.integers(1, 1800), st.integers(1, 60), st.integers(1, 6000)))
        def fail_create(self, mode, kind, n):
            self.ops.append(["fail-create", mode, n if mode == "interrupt" else n % 64, kind])

        @precondition(lambda self: any(o[0] == "create" for o in self.ops) and sum(o[0] == "fail-use" for o in self.ops) < 4)
        @rule(ci=st.integers(0, 100), bi=st.integers(0, 1000), n=st.one_of(st.integers(1, 40), st.integers(1, 250)))
        def fail_use(self, ci, bi, n):
            self.ops.append(["fail-use", ci, bi, n])

        @precondition(lambda self: self.n_inputs < 12)
        @rule(data=st.data(), ri=st.integers(0, 10**6), broken=st.booleans())
        def add_input(self, data, ri, broken):
            root = roots[ri % len(roots)]
            tv, _ = data.draw(tvgen.value_strategy(objects, root, tvgen.GenCfg(max_nodes=60)))
            j = tvgen.erase(tv)
            if broken and isinstance(j, dict) and j:
                j = dict(j)
                j.pop(sorted(j)[0])
            self.n_inputs += 1
            self.ops.append(["add_input", type_name(root), j])

        @precondition(lambda self: any(o[0] in ("create", "fail-create") for o in self.ops))
        @rule(ci=st.integers(0, 100), bi=st.integers(0, 1000))
        def use(self, ci, bi):
            self.ops.append(["use", ci, bi])

        @precondition(lambda self: any(o[0] == "create" for o in self.ops) and sum(o[0] == "customise" for o in self.ops) < 3)
        @rule(ci=st.integers(0, 100), what=st.sampled_from(["int-hook", "forbid-extra", "position-hook"]))
        def customise(self, ci, what):
            self.ops.append(["customise", ci, what])

        @precondition(lambda self: sum(o[0] == "create" for o in self.ops) > sum(o[0] == "drop" for o in self.ops))
        @rule(ci=st.integers(0, 100))
        def drop(self, ci):
            self.ops.append(["drop", ci])

        def teardown(self):
            if not any(o[0] in ("create", "fail-create") for o in self.ops):
                return
            last_fault = max([i for i, o in enumerate(self.ops) if o[0] == "fail-create"], default=None)
            if last_fault is not None and not any(o[0] == "create" for o in self.ops[last_fault + 1:]):
                self.ops.append(["create", "fresh"])   # what a cut-short creation leaves behind shows in the next converter
            battery = fixed + [(o[1], o[2]) for o in self.ops if o[0] == "add_input"]
            ref = in_child(child_reference, battery)
            res = in_child(child_history, self.ops, fixed, ref["outcomes"], wide, ref.get("by_group")) if ref is not None else None
            stats["histories"] += 1
            if res is None:
                stats["inconclusive_timeouts"] += 1
                return
            stats["creations"] += sum(1 for o in self.ops if o[0] == "create")
            stats["faulty_creations"] += len(res.get("faults", []))
            stats["faulty_creations_that_failed"] += sum(1 for f in res.get("faults", []) if f[2])
            stats["faulty_first_creations_that_failed"] += sum(1 for f in res.get("faults", [])[:1] if f[2] and self.ops and self.ops[0][0] == "fail-create")
            stats["uses"] += sum(1 for o in self.ops if o[0] == "use")
            stats["battery_evaluations"] += res["evaluations"]
            short = [o[:2] if o[0] not in ("use", "fail-create", "fail-use", "customise") else o for o in self.ops]
            histories.append(short)
            for sig, detail, step in res["findings"]:
                ctx.finding(tuple(sig), detail + f"; history {short[: step + 1]}", {"ops": self.ops[: step + 1]})

    if shard == 0:
        # standing histories (the replay tier of this part): every user-supplied configuration is created, used, forgotten
        # and created again - twice, so that a later converter can take the place (and the address) of a collected one
        user_kinds = [k for k in CONFIGS if k != "fresh"]
        for k1 in user_kinds:
            for k2 in (k1, user_kinds[(user_kinds.index(k1) + 1) % len(user_kinds)]):
                ops = [["create", k1], ["use", 0, 3], ["drop", 0], ["create", k2], ["use", 0, 5], ["drop", 0], ["create", "fresh"], ["create", k1], ["drop", 1], ["create", k2]]
                ref = in_child(child_reference, fixed)
                res = in_child(child_history, ops, fixed, ref["outcomes"], wide, ref.get("by_group")) if ref is not None else None
                stats["scripted_histories"] += 1
                if res is None:
                    stats["inconclusive_timeouts"] += 1
                    continue
                stats["creations"] += 5
                stats["battery_evaluations"] += res["evaluations"]
                for sig, detail, step in res["findings"]:
                    ctx.finding(tuple(sig), detail + f"; history {ops[: step + 1]}", {"ops": ops[: step + 1]})
    if shard == 1:
        for what in ("int-hook", "forbid-extra", "position-hook"):
            ops = [["create", "fresh"], ["create", "fresh"], ["customise", 0, what], ["create", "fresh"], ["use", 1, 3], ["create", "Converter()"]]
            ref = in_child(child_reference, fixed)
            res = in_child(child_history, ops, fixed, ref["outcomes"], wide, ref.get("by_group")) if ref is not None else None
            stats["scripted_histories"] += 1
            if res is None:
                stats["inconclusive_timeouts"] += 1
                continue
            stats["creations"] += 4
            stats["battery_evaluations"] += res["evaluations"]
            for sig, detail, step in res["findings"]:
                ctx.finding(tuple(sig), detail + f"; history {ops[: step + 1]}", {"ops": ops[: step + 1]})
    run_state_machine_as_test(
        hypothesis.seed(derive_seed(seed, "C19", "hist", shard))(Hist),
        settings=settings(max_examples=examples, stateful_step_count=steps, database=None, deadline=None,
                          report_multiple_bugs=False, phases=[Phase.generate], suppress_health_check=list(HealthCheck),
                          verbosity=hypothesis.Verbosity.quiet),
    )
    distinct = []
    for hst in histories:
        kinds = {x[1] for x in hst if x[0] == "create"}
        creates = [i for i, x in enumerate(hst) if x[0] == "create"]
        use_between = any(x[0] == "use" for x in hst[creates[0]:creates[-1]]) if len(creates) >= 2 else False
        if len(kinds) >= 2 and use_between:
            distinct.append(json.dumps(hst))
    return {"violations": list(ctx.violations.values()), "known_hits": ctx.known_hits, "known_examples": ctx.known_examples,
            "stats": dict(stats), "samples": [{"history": h_[:10]} for h_ in histories[-1:]], "distinct": distinct, "kind": "hist"}


# ---- (C) real threads ---------------------------------------------------------------------------------------
def child_real_threads(n: int) -> dict:
    t, h, c = pkg()
    sys.setswitchinterval(1e-6)
    errors: List[str] = []
    barrier = threading.Barrier(n)

    def worker():
        try:
            barrier.wait()
            c.get_converter()
        except BaseException as e:
            errors.append(f"{type(e).__name__}: {e}")

    ths = [threading.Thread(target=worker) for _ in range(n)]
    for th in ths:
        th.start()
    for th in ths:
        th.join()
    return {"errors": errors}


def _work_real(args) -> dict:
    shard, seed, trials = args
    t, h, c = pkg()
    ctx = Ctx("C19", "quick", seed)
    stats = collections.Counter()
    for i in range(trials):
        res = in_child(child_real_threads, 16)
        stats["real_thread_trials"] += 1
        if res is None:
            stats["inconclusive_timeouts"] += 1
            continue
        for msg in res["errors"]:
            import re
            ctx.finding(("first-use-raises", "get_converter", re.sub(r"\d+", "N", msg)[:80]), f"16 real threads: {msg}", {"threads": 16, "real": True})
    return {"violations": list(ctx.violations.values()), "known_hits": ctx.known_hits, "known_examples": ctx.known_examples,
            "stats": dict(stats), "samples": [], "distinct": [], "kind": "real"}


# ---- (E) the first creation of the process is cut short --------------------------------------------------------------
def wide_battery_for(seed: int):
    from .. import tvgen
    from ..refmodel import Model, load_doc
    model = Model(load_doc(repo_path("generator", "lsp.json")))
    objects = tvgen.Objects(model)
    names = [s for s in sorted(model.structs) if not s.startswith("_")]
    drawn: List[Any] = []
    for name_ in names:
        mini(tvgen.value_strategy(objects, ("struct", name_), tvgen.GenCfg(mode="min", max_nodes=40)), 1, (seed, "C19wide", name_),
             lambda x: drawn.append(x))
    return [(n_, tvgen.erase(x[0])) for n_, x in zip(names, drawn)]


def _work_fault(args) -> dict:
    """histories [creation cut short at fault point n, then ordinary creations]: the once-only part of the first creation is
    where a failure can leave process-wide state half done, so the fault points are drawn densely there."""
    shard, seed, count = args
    t, h, c = pkg()
    if not pristine(t):
        raise HarnessError("fault worker is not pristine")
    ctx = Ctx("C19", "quick", seed)
    stats = collections.Counter()
    fixed = fixed_battery()
    wb = wide_battery_for(seed)
    wref = in_child(child_reference, wb)
    ref = in_child(child_reference, fixed)
    if wref is None or ref is None:
        raise HarnessError("reference child timed out")
    wide = [wb, wref["outcomes"]]
    distinct = []

    def one(x):
        mode, n, kind, second = x
        if stats["fault_histories"] % 2:
            # every other history: the creation succeeds, the first uses are cut short at fault point n, n+7, ...
            ops = [["create", kind]] + [["fail-use", 0, n * 7 + 31 * i, max(1, (n + 37 * i) % 180)] for i in range(6)] + [["create", second]]
        else:
            ops = [["fail-create", mode, n, kind], ["create", second], ["create", "fresh"]]
        res = in_child(child_history, ops, fixed, ref["outcomes"], wide, ref.get("by_group"))
        stats["fault_histories"] += 1
        if res is None:
            stats["inconclusive_timeouts"] += 1
            return
        stats["uses_cut_short"] += sum(1 for f in res["faults"] if f[0] == "use" and f[2])
        if res["faults"] and res["faults"][0][2] and res["faults"][0][0] != "use":
            stats["first_creation_failed"] += 1
            distinct.append(json.dumps(["fault", mode, n]))
        stats["battery_evaluations"] += res["evaluations"]
        for sig, detail, step in res["findings"]:
            ctx.finding(tuple(sig), detail + f"; history {ops[: step + 1]}", {"ops": ops[: step + 1]})

    strat = st.tuples(st.sampled_from(["interrupt", "interrupt", "interrupt", "stack"]),
                      st.one_of(st.integers(1, 2400), st.integers(1, 64)), st.sampled_from(PLAIN_KINDS), st.sampled_from(PLAIN_KINDS))
    mini(strat.map(lambda x: (x[0], x[1] if x[0] == "interrupt" else x[1] % 64, x[2], x[3])), count, (seed, "C19fault", shard), one)
    return {"violations": list(ctx.violations.values()), "known_hits": ctx.known_hits, "known_examples": ctx.known_examples,
            "stats": dict(stats), "samples": [], "distinct": distinct, "kind": "fault"}


# ---- (D) configurations x generated inputs ------------------------------------------------------------------------


def union_items(model, objects, sites_per_occurrence: Optional[int]) -> List[tuple]:
    from .. import tvgen
    sites = tvgen.Sites(objects)
    items = []
    for locus, ty in model.union_occurrences():
        if locus.split("|")[0] == "alias:LSPAny":
            continue
        for root, route in sites.sites(locus, sites_per_occurrence):
            if root[0] == "alias":
                continue
            for i in range(len(ty["items"])):
                items.append((locus, i, root, route + [f"{locus}|{i}"]))
    return items


def _work_cfg(args) -> dict:
    # in a child of its own: the pool worker must stay pristine for the jobs that fork pristine children from it
    res = in_child(_cfg_body, args, timeout=3600)
    if res is None:
        raise HarnessError("configuration worker timed out")
    return res


def _cfg_body(args) -> dict:
    """every union alternative at its use sites, k routed values each: all non-customised configurations must give the
    outcome of the plain get_converter() (the unions are where configuration-dependent machinery of cattrs is used)."""
    shard, nshards, seed, k, sites_per_occurrence = args
    t, h, c = pkg()
    import cattrs
    from .. import tvgen
    from ..refmodel import Model, load_doc
    model = Model(load_doc(repo_path("generator", "lsp.json")))
    objects = tvgen.Objects(model)
    items = union_items(model, objects, sites_per_occurrence)[shard::nshards]
    ctx = Ctx("C19", "quick", seed)
    stats = collections.Counter()
    made = {
        "fresh": c.get_converter(),
        "Converter(dv=True)": c.get_converter(cattrs.Converter(detailed_validation=True)),
        "Converter(dv=False)": c.get_converter(cattrs.Converter(detailed_validation=False)),
        "GenConverter()": c.get_converter(cattrs.GenConverter()),
        "Converter()": c.get_converter(cattrs.Converter()),
    }
    distinct = set()

    def type_name(root: tuple) -> str:
        if root[0] in ("struct", "and", "special"):
            return root[1]
        kind_, msg_ = objects.message(root[2])
        req, resp = model.message_class_names(kind_, msg_)
        return resp if root[1] == "response" else req

    for (occ, idx, root, route) in items:
        try:
            name = type_name(root)
            getattr(t, name)
        except Exception:
            continue
        strat = tvgen.value_strategy(objects, root, tvgen.GenCfg(route=route, max_nodes=120))

        def one(x):
            tv, _ = x
            j = tvgen.erase(tv)
            ref = outcome_with_shape(made["fresh"], t, name, j)
            stats["cfg_inputs"] += 1
            distinct.add(tvgen.canon_hash([name, j]))
            for label, conv in made.items():
                if label == "fresh":
                    continue
                stats["cfg_comparisons"] += 1
                got = outcome_with_shape(conv, t, name, j)
                if got != ref:
                    ctx.finding(("configuration-differs", f"{occ}#{idx}", label),
                                f"{name} {json.dumps(j)[:200]}: get_converter({label}) gives {str(got)[:200]}, get_converter() gives {str(ref)[:200]}",
                                {"type": name, "json": j, "config": label})

        mini(strat, k, (seed, "C19cfg", occ, idx, name), one)
    return {"violations": list(ctx.violations.values()), "known_hits": ctx.known_hits, "known_examples": ctx.known_examples,
            "stats": dict(stats), "samples": [], "distinct": [f"cfg:{d}" for d in sorted(distinct)[:2000]], "kind": "cfg"}


def _dispatch(job):
    kind = job[0]
    return {"sched": _work_sched, "hist": _work_hist, "real": _work_real, "cfg": _work_cfg, "fault": _work_fault}[kind](job[1:])


def run(ctx: Ctx) -> None:
    t, h, c = pkg()
    if not pristine(t):
        raise HarnessError("main process is not pristine")
    if ctx.quick:
        jobs = [("sched", s, ctx.seed, 8) for s in range(10)] + [("hist", s, ctx.seed, 8, 12) for s in range(6)]
        jobs += [("cfg", s, 8, ctx.seed, 4, 2) for s in range(8)] + [("fault", s, ctx.seed, 5) for s in range(8)]
    else:
        jobs = [("sched", s, ctx.seed, 60) for s in range(10)] + [("hist", s, ctx.seed, 40, 25) for s in range(4)] + [("real", s, ctx.seed, 25) for s in range(2)]
        jobs += [("cfg", s, 16, ctx.seed, 40, None) for s in range(16)] + [("fault", s, ctx.seed, 60) for s in range(16)]
    results = runner.pmap(_dispatch, jobs)
    stats = collections.Counter()
    distinct = set()
    samples = []
    for r in results:
        for k, v in r["stats"].items():
            stats[f"{r['kind']}:{k}"] += v
        distinct |= set(r["distinct"])
        samples.extend(r["samples"][:1])
        ctx.merge_worker(r)
    evaluations = stats["sched:cases"] + stats["hist:creations"] + stats["hist:uses"] + stats["real:real_thread_trials"] + stats["cfg:cfg_comparisons"] + stats["fault:fault_histories"]
    if stats["hist:histories"] == 0 or stats["sched:cases"] == 0:
        raise HarnessError("no schedules or no histories were executed")
    # children that did not finish within their time limit: the cases take seconds, the limit is two minutes. A leg in which
    # most cases time out is a hang of the code under test ("is created without error" fails by never returning) - load on
    # the machine does not do that; a few time-outs are inconclusive, and too many of them make the run itself inconclusive.
    attempts = {"sched": stats["sched:cases"], "hist": stats["hist:histories"] + stats["hist:scripted_histories"],
                "fault": stats["fault:fault_histories"] + stats["fault:inconclusive_timeouts"],
                "cfg": max(1, stats["cfg:cfg_inputs"] // 40) + stats["cfg:inconclusive_timeouts"], "real": stats["real:real_thread_trials"] + stats["real:inconclusive_timeouts"]}
    late_total = 0
    for leg, n_att in attempts.items():
        late = stats[f"{leg}:inconclusive_timeouts"]
        late_total += late
        if late >= 3 and n_att and late * 2 >= n_att:
            ctx.finding(("does-not-return", leg, "time-limit"),
                        f"{late} of {n_att} cases of the {leg} leg did not finish within {CHILD_TIMEOUT:.0f} s (a case takes seconds): creation or first use hangs",
                        {"leg": leg, "timed_out": late, "attempted": n_att})
    all_attempts = sum(attempts.values())
    if not ctx.violations and late_total > max(3, all_attempts // 20):
        raise HarnessError(f"{late_total} of {all_attempts} cases timed out: the run is inconclusive")
    ctx.coverage.update({
        "evaluations": max(evaluations, 1), "distinct_nontrivial": len(distinct), "rule": RULE, "samples": samples[:5],
        "stats": dict(stats), "exhaustive": False,
    })
    ctx.assumptions = [
        "interleavings at source-line granularity inside _resolve_forward_references and at calls of its _filter closure; switches inside C code are not controlled (atomic under the GIL)",
        "outcomes are compared as raised / serialised JSON, never by exception type",
        "a child that exceeds its time limit is inconclusive; a leg in which half of the cases or more exceed it is reported as a hang, and more than 5% over all legs make the run a harness error",
        "a creation interrupted by an injected asynchronous exception or RecursionError is a failed creation, not a violation; the converters created after it are held to the property",
    ]


def replay(ctx: Ctx, path: str) -> int:
    with open(path) as f:
        rp = json.load(f)
    case = rp["case"]
    if "ops" in case:
        t, h, c = pkg()
        fixed = fixed_battery()
        battery = fixed + [(o[1], o[2]) for o in case["ops"] if o[0] == "add_input"]
        ref = in_child(child_reference, battery)
        res = in_child(child_history, case["ops"], fixed, ref["outcomes"], None, ref.get("by_group")) if ref else None
        if res is None:
            print("[C19] replay: child timed out (inconclusive)")
            return 2
        if res["findings"]:
            print(f"VIOLATION property=C19 replay={path}\n  {res['findings'][0][1][:300]}")
            return 1
        print("[C19] replay: history no longer fails")
        return 0
    if "segments" not in case:
        run(ctx)
        return ctx.finish()
    t, h, c = pkg()
    battery = fixed_battery()
    res = in_child(child_schedule, case["threads"], [tuple(s) for s in case["segments"]], battery, case.get("use", []), case.get("kinds") or None)
    if res is None:
        print("[C19] replay: child timed out (inconclusive)")
        return 2
    if res["raised"]:
        print(f"VIOLATION property=C19 replay={path}\n  {res['raised'][0][1]}")
        return 1
    print(f"[C19] replay: schedule {case['segments']} with {case['threads']} threads no longer fails ({res['points']} yield points)")
    return 0
