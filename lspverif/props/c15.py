"""C15 — unknown properties are ignored (forward compatibility)."""
from __future__ import annotations

import copy
import json
import warnings
from typing import Any, List, Tuple

from hypothesis import strategies as st

from .. import tvgen, valuecheck
from ..oracle import jeq, short
from ..runner import Ctx
from ..tvgen import S, TV, erase, walk
from .c01 import exc_detail, exc_frame, exc_sig

RULE = (
    "typed values as in C01 plus 1-3 insertions: a protocol-object node of the value (never payload or map "
    "positions), a fresh property name (text filtered against every property name declared anywhere in the metamodel "
    "and the envelope keys) and an arbitrary JSON payload; metamorphic oracle: structure(j+) succeeds when "
    "structure(j) does, the two objects are equal and serialise identically. non-trivial = every case (>=1 insertion); "
    "distinct = sha256 of (root, j, insertions)"
)

_DECLARED = {}


def declared_names(sub) -> set:
    k = id(sub)
    if k not in _DECLARED:
        names = {"jsonrpc", "id", "method", "params", "result", "error", "code", "message", "data"}
        for s in sub.model.doc["structures"]:
            names.update(p["name"] for p in s["properties"])
        for _, t in sub.objects.type_at.items():
            if t["kind"] == "literal":
                names.update(p["name"] for p in t["value"]["properties"])
        _DECLARED[k] = names
    return _DECLARED[k]


_NEAR = {}


def near_names(sub) -> list:
    """undeclared names that are *near* declared ones (substrings, case variants, affixed forms): the names most
    likely to be confused with a discriminator key by hand-written code."""
    k = id(sub)
    if k not in _NEAR:
        names = declared_names(sub)
        out = {""}
        for n in sorted(names):
            out.update([n.upper(), n.lower(), n.capitalize(), n + "s", n + "_", "_" + n, n + " ", " " + n, n + "Id", "x" + n, n[:-1], n[1:]])
            if len(n) <= 4:
                for i in range(len(n) + 1):
                    for j in range(i, len(n) + 1):
                        out.add(n[i:j])
        _NEAR[k] = sorted(x for x in out if x not in names)
    return _NEAR[k]


def extra(sub, root):
    names = declared_names(sub)
    fresh = st.one_of(
        st.sampled_from(["x", "_", "$schema", "newField", "Kind", "ID", "__proto__", "experimentalFoo", " ", "naïve", "0"]),
        # names that mean something to Python code handling the object as keyword arguments or attributes
        st.sampled_from(["self", "cls", "args", "kwargs", "__class__", "__dict__", "__init__", "__slots__", "__attrs_attrs__", "converter", "object_",
                         "type", "value_", "from_", "class", "None", "lambda", "def"]),
        st.sampled_from(near_names(sub)),
        st.text(alphabet="abcdefghijklmnopqrstuvwxyzIDKR_", min_size=0, max_size=3),
        st.text(min_size=1, max_size=8),
    ).filter(lambda s: s not in names)
    # node-relative names: another spelling (snake_case, kebab-case, PascalCase, ...) of a property the node's own class
    # declares - resolved in body(), where the node is known; JSON-serialisable marker [mode, k]
    respelt = st.tuples(st.sampled_from(RESPELL_MODES + ["hook-key", "hook-key"]), st.integers(0, 200)).map(list)
    return st.lists(st.tuples(st.integers(0, 10**6), st.one_of(fresh, fresh, respelt), tvgen.json_any), min_size=1, max_size=3)


_HOOK_KEYS: dict = {}


def hook_keys(sub) -> list:
    """property names of the protocol that occur as string constants in the package's hand-written modules: the keys its
    hooks look for. Declared somewhere - but adding one to an object whose class (and whose sibling alternatives, at a
    union) does not declare it is adding an undeclared property to that object."""
    if id(sub) not in _HOOK_KEYS:
        from .c11 import package_constants
        names = declared_names(sub)
        _HOOK_KEYS[id(sub)] = [w for w in package_constants(sub)["str"] if w in names]
    return _HOOK_KEYS[id(sub)]


def locally_declared(sub, tv: TV, path: tuple) -> set:
    """names declared by the class of the object node at `path`, and by every other reading the enclosing unions offer for
    that position: at a union directly above the object its object alternatives; at a union above an array (or map) that
    holds the object, the element types of its array (map) alternatives (`SymbolInformation[] | WorkspaceSymbol[]`)."""
    from ..tvgen import L, Mp, U
    nodes = {p_: n for p_, n in walk(tv)}
    node = nodes[path]
    names = {p["name"] for p in sub.objects.props(node.key)}
    m = sub.model

    def collect(t: dict, wraps: tuple, depth: int = 0) -> None:
        """wraps: the containers between the union and the object, outermost first ('array' / 'map')"""
        if depth > 8:
            return
        t = m.resolve_alias(t)
        k = t["kind"]
        if k in ("or", "and"):
            for it in t["items"]:
                collect(it, wraps, depth + 1)
        elif wraps:
            if k == wraps[0] == "array":
                collect(t["element"], wraps[1:], depth + 1)
            elif k == wraps[0] == "map":
                collect(t["value"], wraps[1:], depth + 1)
        elif k == "reference" and t["name"] in m.structs:
            names.update(p["name"] for p in m.flat_props(t["name"]))
        elif k == "literal":
            names.update(p["name"] for p in t["value"]["properties"])

    p_ = path
    wraps: tuple = ()
    while p_:
        p_ = p_[:-1]
        parent = nodes.get(p_)
        if isinstance(parent, U):
            ty = sub.objects.type_at.get(parent.occ)
            if ty is not None:
                collect(ty, wraps)
        elif isinstance(parent, L):
            wraps = ("array",) + wraps
        elif isinstance(parent, Mp):
            wraps = ("map",) + wraps
        else:
            break
    return names


RESPELL_MODES = ["snake", "kebab", "pascal", "upper-snake", "trailing-underscore", "dotted", "lower"]


def respell(name: str, mode: str) -> str:
    import re
    words = re.sub(r"([a-z0-9])([A-Z])", r"\1 \2", name).split()
    low = [w.lower() for w in words]
    return {"snake": "_".join(low), "kebab": "-".join(low), "pascal": name[:1].upper() + name[1:], "upper-snake": "_".join(low).upper(),
            "trailing-underscore": name + "_", "dotted": ".".join(low), "lower": name.lower()}[mode]


def resolve_name(sub, node_tv, node_json: dict, name) -> str:
    """marker [mode, k] -> a respelling of the k-th multi-word (else any) declared property of the node's class,
    absent ones first; None when it coincides with a declared name."""
    if isinstance(name, str):
        return name
    mode, k = name
    if mode == "hook-key":
        keys = hook_keys(sub)
        return keys[k % len(keys)] if keys else None
    declared = [p["name"] for p in sub.objects.props(node_tv.key)]
    if not declared:
        return None
    multi = [n for n in declared if n != n.lower()] or declared
    absent = [n for n in multi if n not in node_json] or multi
    out = respell(absent[k % len(absent)], mode)
    return None if out in declared or out in declared_names(sub) else out


def object_paths(tv: TV) -> List[tuple]:
    return [path for path, n in walk(tv) if isinstance(n, S)]


def json_at(j: Any, path: tuple) -> Any:
    for step in path:
        if step[0] == "p" or step[0] == "k":
            j = j[step[1]]
        elif step[0] == "i":
            j = j[step[1]]
    return j


def body(sub, root: tuple, tv: TV, extra=None) -> List[Tuple[str, str, str, str]]:
    j = erase(tv)
    T = sub.root_type(root)
    rname = valuecheck.root_name(root)
    paths = object_paths(tv)
    if not paths or not extra:
        valuecheck.note("not-judged:no-object-node" + (":alias-root" if root[0] == "alias" else ""))
        return []
    try:
        obj = sub.conv.structure(j, T)
        o = json.loads(json.dumps(sub.conv.unstructure(obj, T)))
    except Exception:
        valuecheck.note("not-judged:baseline-fails(C01's matter)" + (":alias-root" if root[0] == "alias" else ""))
        return []  # not a C15 matter (C01)
    jp = copy.deepcopy(j)
    where = []
    for sel, name, payload in extra:
        path = paths[sel % len(paths)]
        node = json_at(jp, path)
        tvn = [n for p, n in walk(tv) if p == path][0]
        if isinstance(node, dict):
            is_hook_key = isinstance(name, list) and name[0] == "hook-key"
            name = resolve_name(sub, tvn, node, name)
            if is_hook_key and name is not None and name in locally_declared(sub, tv, path):
                name = None
        if isinstance(node, dict) and name is not None and name not in node:
            node[name] = payload
            where.append(":".join(str(x) for x in tvn.key))
    if not where:
        valuecheck.note("not-judged:nothing-inserted")
        return []
    ctx = where[0]
    try:
        # a process that turns warnings into errors (python -W error, pytest filterwarnings=error) is an ordinary way to run
        # a server: "never makes structuring fail" includes not raising through the warnings machinery
        with warnings.catch_warnings():
            warnings.simplefilter("error")
            obj2 = sub.conv.structure(jp, T)
    except Exception as e:
        return [(f"raises:{exc_sig(e)}", exc_frame(e), f"extra-key@{ctx}", f"root {rname}: {exc_detail(e)}; extras at {where}")]
    try:
        o2 = json.loads(json.dumps(sub.conv.unstructure(obj2, T)))
    except Exception as e:
        return [(f"raises:{exc_sig(e)}", exc_frame(e), f"extra-key-unstructure@{ctx}", f"root {rname}: {exc_detail(e)}")]
    out = []
    if not jeq(o, o2):
        out.append(("serialisation-differs", f"root:{rname}", f"extra-key@{ctx}", f"{short(o, 150)} vs {short(o2, 150)}"))
    try:
        same = obj == obj2
    except Exception as e:
        same = False
    if not same:
        out.append(("object-differs", f"root:{rname}", f"extra-key@{ctx}", f"{short(obj, 150)} vs {short(obj2, 150)}"))
    return out


valuecheck.register("C15", body, None, extra)


PINNED_NAMES = ["x", ["hook-key", 0], "", ["hook-key", 1], "Kind", ["snake", 0], ["hook-key", 2], ["pascal", 1], "self", ["hook-key", 3], "id ", ["lower", 2],
                ["hook-key", 4], "__proto__", ["hook-key", 5], "uri_", ["hook-key", 6], ["hook-key", 7], ["hook-key", 8], ["hook-key", 9], ["hook-key", 10],
                ["hook-key", 11], ["hook-key", 12], ["hook-key", 13], ["hook-key", 14], ["hook-key", 15], ["hook-key", 16], ["hook-key", 17], ["hook-key", 18]]


def _pinned_work(args) -> dict:
    """every union alternative at its use sites: a fresh key at *every* object node of the routed value, one node at a time
    (hand-written discriminators look at the key sets of exactly these nodes)."""
    from ..hyp import mini
    from ..tvgen import to_json
    items, seed, k = args
    sub = valuecheck.subject()
    lctx = Ctx("C15", "quick", seed)
    res = {"evaluations": 0, "hashes": set()}
    for (occ, idx, root, route) in items:
        strat = tvgen.value_strategy(sub.objects, root, tvgen.GenCfg(route=route, max_nodes=120))

        swept = [False]

        def one(x):
            tv, _ = x
            paths = object_paths(tv)
            if not swept[0]:
                # the object that IS the pinned alternative: every key the package's hooks look for that neither its class
                # nor a sibling alternative declares
                swept[0] = True
                from ..tvgen import U
                alt_paths = [p_ + (("u",),) for p_, n in walk(tv) if isinstance(n, U) and n.occ == occ and n.idx == idx]
                for ap in alt_paths[:1]:
                    if ap in paths:
                        ni = paths.index(ap)
                        local = locally_declared(sub, tv, ap)
                        for hk, key in enumerate(hook_keys(sub)):
                            if key in local:
                                continue
                            extra_ = [[ni, ["hook-key", hk], [None, 1, "x", {"a": 1}][hk % 4]]]
                            res["evaluations"] += 1
                            res["hook_key_probes"] = res.get("hook_key_probes", 0) + 1
                            for f in body(sub, root, tv, extra_):
                                lctx.finding((f[0], f[1], f[2]), f[3] + f" [key {key!r}]", {"root": list(root), "json": erase(tv), "tv": to_json(tv), "extra": extra_})
            for ni in range(min(len(paths), 10)):
                name = PINNED_NAMES[(ni + res["evaluations"]) % len(PINNED_NAMES)]
                payload = [None, 1, {"a": None}, "s", [1, {}], True][(ni + res["evaluations"]) % 6]
                extra_ = [[ni, name, payload]]
                res["evaluations"] += 1
                res["hashes"].add(tvgen.canon_hash([valuecheck.root_name(root), erase(tv), ni, name]))
                for f in body(sub, root, tv, extra_):
                    lctx.finding((f[0], f[1], f[2]), f[3], {"root": list(root), "json": erase(tv), "tv": to_json(tv), "extra": extra_})

        mini(strat, k, (seed, "C15-pinned", occ, idx, valuecheck.root_name(root)), one)
    res["violations"] = list(lctx.violations.values())
    res["known_hits"] = lctx.known_hits
    res["known_examples"] = lctx.known_examples
    return res


def pinned_nodes(ctx: Ctx, sites_per_occurrence, k: int) -> dict:
    from .. import runner
    from ..tvgen import Sites
    sub = valuecheck.subject()
    sites = Sites(sub.objects)
    items = []
    for locus, t in sub.model.union_occurrences():
        if locus.split("|")[0] == "alias:LSPAny":
            continue
        for root, route in sites.sites(locus, sites_per_occurrence):
            if root[0] == "alias":
                continue
            for i in range(len(t["items"])):
                items.append((locus, i, root, route + [f"{locus}|{i}"]))
    results = runner.pmap(_pinned_work, [(sh, ctx.seed, k) for sh in runner.chunks(items, runner.NPROC * 3)])
    ev, hashes = 0, set()
    for r in results:
        ev += r["evaluations"]
        hashes |= r["hashes"]
        ctx.merge_worker(r)
    return {"evaluations": ev, "distinct": len(hashes), "pinned_items": len(items), "cases_per_item": k}


def run(ctx: Ctx) -> None:
    ctx.assumptions = [
        "a name is 'undeclared' when no structure, literal or envelope of the metamodel declares it anywhere (so it cannot be a hook discriminator)",
        "payload (LSPAny/LSPObject) and map positions are excluded: a new key there is data",
    ]
    valuecheck.run_value_property(ctx, "C15", n_quick=100, n_thorough=800, rule=RULE)
    pin = pinned_nodes(ctx, 3 if ctx.quick else None, 3 if ctx.quick else 25)
    ctx.coverage["pinned_union_alternatives_every_node"] = pin
    ctx.coverage["evaluations"] += pin["evaluations"]


def replay(ctx: Ctx, path: str) -> int:
    return valuecheck.replay_value_case(ctx, "C15", path)
