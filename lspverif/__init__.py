"""Property-based verification machinery for microsoft/lsprotocol (see /verif/DESIGN.md)."""
