"""Small wrapper: run fn over n Hypothesis-generated examples with a derived seed, no database, no deadline."""
from __future__ import annotations

from typing import Any, Callable

import hypothesis
from hypothesis import HealthCheck, Phase, given, settings

from .runner import derive_seed


def mini(strategy, n: int, seed_parts: tuple, fn: Callable[[Any], None], shrink: bool = False) -> None:
    phases = [Phase.generate] + ([Phase.shrink] if shrink else [])
    test = hypothesis.seed(derive_seed(*seed_parts))(
        settings(
            max_examples=n, database=None, deadline=None, report_multiple_bugs=False, phases=phases,
            suppress_health_check=list(HealthCheck), derandomize=False, verbosity=hypothesis.Verbosity.quiet,
        )(given(strategy)(fn))
    )
    test()
